"""Reference for the OpenPGP-wrapped ed25519 signatures (RFC 4880 5.2.4, v4).

digest = SHA-256(data || hashed_header_bytes || 0x04 0xFF || be32(len(hashed_header_bytes)))
valid  <=> ed25519.verify(key, digest, sig)
"""
import hashlib

from . import ed25519


def be32(n):
    if not 0 <= n < 2**32:
        raise ValueError("length out of range")
    return bytes([(n >> 24) & 255, (n >> 16) & 255, (n >> 8) & 255, n & 255])


def digest(data, hdr):
    return hashlib.sha256(bytes(data) + bytes(hdr) + b"\x04\xff" + be32(len(hdr))).digest()


def gnupg_style_header(fingerprint20, created):
    """Hashed part of a v4 signature packet as GnuPG 2.2 writes it for a binary
    document signature with EdDSA/SHA-256: version 4, type 0x00, pubkey algo 22,
    hash algo 8, hashed subpackets: issuer fingerprint (33), creation time (2)."""
    sub = bytes([0x16, 0x21, 0x04]) + fingerprint20 + bytes([0x05, 0x02]) + be32(created)
    return bytes([0x04, 0x00, 0x16, 0x08, (len(sub) >> 8) & 255, len(sub) & 255]) + sub


def sign(seed, data, hdr, nonce=None):
    dg = digest(data, hdr)
    if nonce is None:
        return ed25519.sign(seed, dg)
    return ed25519.sign_with_nonce(seed, dg, nonce)


def make_entry(seed, data, hdr, see_also=None, nonce=None):
    e = {"other_headers": hdr.hex(), "signature": sign(seed, data, hdr, nonce).hex()}
    if see_also is not None:
        e["see_also"] = see_also
    return e


def verify(pub, data, hdr, sig):
    return ed25519.verify(pub, digest(data, hdr), sig)
