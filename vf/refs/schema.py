"""Reference validators for the documented grammars (C14/C15), written with ASCII
classes and regular expressions only; never calls the library.

Every function returns one of
    A  - the documented grammar accepts: the library MUST accept
    R  - the documented grammar rejects: the library MUST reject
    G  - grey: the property statements are silent/ambiguous; tallied, never judged
"""
import re

A, R, G = "A", "R", "G"

_HEX = re.compile(r"\A(?:[0-9a-f]{2})+\Z")
_HEX64 = re.compile(r"\A[0-9a-f]{64}\Z")
_HEX128 = re.compile(r"\A[0-9a-f]{128}\Z")
_HEX40 = re.compile(r"\A[0-9a-f]{40}\Z")
_DATE = re.compile(r"\A([0-9]{4})-([0-9]{2})-([0-9]{2})T([0-9]{2}):([0-9]{2}):([0-9]{2})Z\Z")

SUPPORTED_TYPES = ("root", "key_mgr")
SERIALIZABLE = (dict, list, tuple, str, int, float, bool, type(None))


def _combine(*vs):
    if R in vs:
        return R
    if G in vs:
        return G
    return A


def _is_plain_str(v):
    return type(v) is str


def _strlike(v):
    """A: exact str; G: str subclass; R: otherwise."""
    if type(v) is str:
        return A
    if isinstance(v, str):
        return G
    return R


def _re(v, rx):
    s = _strlike(v)
    if s == R:
        return R
    return _combine(s, A if rx.match(v) else R)


def hex_string(v):
    return _re(v, _HEX)


def hex_key(v):
    return _re(v, _HEX64)


def hex_signature(v):
    return _re(v, _HEX128)


def gpg_fingerprint(v):
    return _re(v, _HEX40)


def _dictlike(v):
    if type(v) is dict:
        return A
    if isinstance(v, dict):
        return G
    return R


def gpg_signature(v):
    d = _dictlike(v)
    if d == R:
        return R
    ks = set(v.keys())
    if ks == {"other_headers", "signature"}:
        return _combine(d, hex_string(v["other_headers"]), hex_signature(v["signature"]))
    if ks == {"other_headers", "signature", "see_also"}:
        return _combine(
            d,
            hex_string(v["other_headers"]),
            hex_signature(v["signature"]),
            gpg_fingerprint(v["see_also"]),
        )
    return R


def raw_signature(v):
    """exactly {"signature": <128 hex>}"""
    d = _dictlike(v)
    if d == R:
        return R
    if set(v.keys()) == {"signature"}:
        return _combine(d, hex_signature(v["signature"]))
    return R


def signature(v):
    """generalised signature entry: raw shape or OpenPGP shape"""
    r = raw_signature(v)
    g = gpg_signature(v)
    if A in (r, g):
        return A
    if G in (r, g):
        return G
    return R


any_signature = signature


def natural_int(v):
    if type(v) is int:
        return A if v >= 1 else R
    if isinstance(v, bool):
        return G if v else R  # True == 1 is accepted today; statement says "integer"
    if isinstance(v, int):
        return G if v >= 1 else R
    # integral non-int numerics: grey when integral and >= 1, else reject
    if isinstance(v, float):
        if v != v or v in (float("inf"), float("-inf")):
            return R
        return G if (v == int(v) and v >= 1) else R
    try:
        import decimal
        import fractions

        if isinstance(v, decimal.Decimal):
            if not v.is_finite():
                return R
            return G if (v == v.to_integral_value() and v >= 1) else R
        if isinstance(v, fractions.Fraction):
            return G if (v.denominator == 1 and v >= 1) else R
    except Exception:
        return G
    if isinstance(v, complex):
        return R
    return R


def _leap(y):
    return y % 4 == 0 and (y % 100 != 0 or y % 400 == 0)


_UDIGIT = None


def _looks_datelike(s):
    """Superset of what strptime('%Y-%m-%dT%H:%M:%SZ') can accept through its
    documented leniencies (Unicode decimal digits, 1-digit fields, case-insensitive
    literals, space-padded fields).  Anything outside is a certain reject."""
    import unicodedata

    out = []
    for ch in s:
        if ch.isdigit() or unicodedata.category(ch) == "Nd":
            out.append("0")
        else:
            out.append(ch.lower() if len(ch.lower()) == 1 else ch)
    t = "".join(out)
    return (
        # strptime: %Y exactly 4 digits; %m %H %M %S one or two digits; %d one or two digits or blank + digit
        re.match(r"\A0{4}-0{1,2}-(?:0{1,2}| 0)t0{1,2}:0{1,2}:0{1,2}z\Z", t) is not None
    )


def utc_isoformat(v):
    s = _strlike(v)
    if s == R:
        return R
    m = _DATE.match(v)
    if not m:
        return G if _looks_datelike(v) else R
    y, mo, d, h, mi, se = (int(x) for x in m.groups())
    if y < 1 or not 1 <= mo <= 12 or h > 23 or mi > 59:
        return R
    dim = [31, 29 if _leap(y) else 28, 31, 30, 31, 30, 31, 31, 30, 31, 30, 31][mo - 1]
    if not 1 <= d <= dim:
        return R
    if se > 61:
        return R
    if se > 59:
        return G  # leap-second spellings: strptime leniency, statement silent
    return _combine(s, A)


def list_of_hex_keys(v):
    if type(v) is not list:
        return G if isinstance(v, list) else R
    rs = [hex_key(k) for k in v]
    c = _combine(A, *rs)
    if c == R:
        return R
    try:
        if len(set(v)) != len(v):
            return R
    except TypeError:
        return R
    return c


def delegation(v):
    d = _dictlike(v)
    if d == R:
        return R
    if set(v.keys()) != {"threshold", "pubkeys"}:
        return R
    return _combine(d, list_of_hex_keys(v["pubkeys"]), natural_int(v["threshold"]))


def delegations(v):
    d = _dictlike(v)
    if d == R:
        return R
    rs = [d]
    for k, x in v.items():
        rs.append(_strlike(k))
        rs.append(delegation(x))
    return _combine(*rs)


def signable(v):
    d = _dictlike(v)
    if d == R:
        return R
    try:
        ks = set(v.keys())
    except TypeError:
        return R
    if ks != {"signatures", "signed"}:
        return R
    sg = _dictlike(v["signatures"])
    if sg == R:
        return R
    sd = v["signed"]
    if type(sd) in SERIALIZABLE:
        t = A
    elif isinstance(sd, SERIALIZABLE):
        t = G  # subclass of a serializable type: exact-type test rejects, statement silent
    else:
        t = R
    return _combine(d, sg, t)


def delegating_metadata(v):
    s = signable(v)
    if s == R:
        return R
    rs = [s]
    for _k, e in v["signatures"].items():
        rs.append(any_signature(e))
    c = v["signed"]
    if type(c) is not dict:
        if isinstance(c, dict):
            rs.append(G)
        else:
            return R
    for f in ("type", "metadata_spec_version", "delegations", "expiration"):
        if f not in c:
            return R
    t = _strlike(c["type"])
    if t == R or c["type"] not in SUPPORTED_TYPES:
        return R
    rs.append(t)
    rs.append(_strlike(c["metadata_spec_version"]))
    rs.append(delegations(c["delegations"]))
    rs.append(utc_isoformat(c["expiration"]))
    if "timestamp" not in c and "version" not in c:
        return R
    if c["type"] == "root" and "version" not in c:
        return R
    if "timestamp" in c:
        rs.append(utc_isoformat(c["timestamp"]))
    if "version" in c:
        rs.append(natural_int(c["version"]))
    return _combine(*rs)
