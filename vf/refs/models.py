"""Executable reference models for the verifiers (C01-C06), built on the reference
serializer, the reference ed25519 and the reference schema.  Nothing here calls the
library.

Verdicts are three-valued:
  ACCEPT  - the statements require acceptance
  REJECT  - the statements require rejection   (with .error = expected family name or None)
  GREY    - statements silent (grey-zone argument or grey-zone entry decides)
"""
from . import canonjson, ed25519, openpgp, schema

ACCEPT, REJECT, GREY = "ACCEPT", "REJECT", "GREY"


class Verdict:
    __slots__ = ("v", "error", "why", "counted", "grey_counted")

    def __init__(self, v, error=None, why="", counted=(), grey_counted=()):
        self.v = v
        self.error = error  # expected error family when REJECT with a single cause
        self.why = why
        self.counted = tuple(counted)
        self.grey_counted = tuple(grey_counted)

    def __repr__(self):
        return "Verdict(%s,%s,%s,counted=%d,grey=%d)" % (
            self.v,
            self.error,
            self.why,
            len(self.counted),
            len(self.grey_counted),
        )

    def as_json(self):
        return {
            "v": self.v,
            "error": self.error,
            "why": self.why,
            "counted": list(self.counted),
            "grey_counted": list(self.grey_counted),
        }


def payload_bytes(signed):
    """canonical bytes of the payload or None if outside the reference domain"""
    try:
        return canonjson.canon(signed)
    except canonjson.Unsupported:
        return None
    except RecursionError:
        return None


def entry_counts(key, entry, data, gpg):
    """Does this one entry, filed under `key`, count for `key` over `data`?
    returns 'yes' / 'no' / 'grey'."""
    if schema.hex_key(key) != schema.A:
        return "no" if schema.hex_key(key) == schema.R else "grey"
    pub = bytes.fromhex(key)
    if gpg:
        s = schema.gpg_signature(entry)
        if s == schema.R:
            return "no"
        ok = openpgp.verify(
            pub, data, bytes.fromhex(entry["other_headers"]), bytes.fromhex(entry["signature"])
        )
        if not ok:
            return "no"
        return "yes" if s == schema.A else "grey"
    else:
        s = schema.raw_signature(entry)
        if s == schema.R:
            # OpenPGP-shaped entry in raw mode whose signature field happens to be a
            # valid raw signature: counts today, statement ambiguous -> grey
            g = schema.gpg_signature(entry)
            if g != schema.R and ed25519.verify(pub, data, bytes.fromhex(entry["signature"])):
                return "grey"
            return "no"
        ok = ed25519.verify(pub, data, bytes.fromhex(entry["signature"]))
        if not ok:
            return "no"
        return "yes" if s == schema.A else "grey"


def args_status(signable, authorized, threshold, gpg=False):
    """A / R / G for the argument tuple of the envelope verifier."""
    rs = [schema.signable(signable)]
    if type(authorized) is not list:
        rs.append(schema.G if isinstance(authorized, list) else schema.R)
    else:
        rs.extend(schema.hex_key(k) for k in authorized)
    # positive integer; integral non-int numerics (True, 2.0, Decimal(2)) are a grey zone; NaN, infinities,
    # fractions, strings ... are malformed
    rs.append(schema.natural_int(threshold))
    if gpg is True or gpg is False:
        pass
    else:
        rs.append(schema.G)
    return schema._combine(*rs)


def threshold_verdict(signable, authorized, threshold, gpg=False):
    a = args_status(signable, authorized, threshold, gpg)
    if a == schema.R:
        return Verdict(REJECT, "arg", "arguments malformed")
    data = payload_bytes(signable["signed"])
    if data is None:
        # payload outside the JSON value domain (tuple, ...): statements silent
        return Verdict(GREY, None, "payload outside reference domain")
    yes, grey = [], []
    for k, e in signable["signatures"].items():
        if not isinstance(k, str) or k not in authorized:
            continue
        c = entry_counts(k, e, data, bool(gpg))
        if c == "yes":
            yes.append(k)
        elif c == "grey":
            grey.append(k)
    if a == schema.G:
        return Verdict(GREY, None, "grey argument", yes, grey)
    if len(yes) >= threshold:
        return Verdict(ACCEPT, None, "threshold met", yes, grey)
    if len(yes) + len(grey) < threshold:
        return Verdict(REJECT, "SignatureError", "threshold not met", yes, grey)
    return Verdict(GREY, None, "grey entries decide", yes, grey)


def strip_to_counting(signable, verdict):
    """the envelope keeping only the entries the model counts (C06 strip invariance)"""
    keep = set(verdict.counted)
    return {
        "signatures": {k: v for k, v in signable["signatures"].items() if k in keep},
        "signed": signable["signed"],
    }


def _lift(v1, v2):
    """conjunction of two threshold verdicts"""
    if v1.v == REJECT:
        return v1
    if v2.v == REJECT:
        return v2
    if GREY in (v1.v, v2.v):
        return Verdict(GREY, None, "grey conjunct")
    return Verdict(ACCEPT, None, "both thresholds met", v1.counted)


def root_verdict(trusted, new):
    """C03: the root update rule.  Returns (Verdict, failed_conjuncts:list[str])."""
    failed = []
    st, sn = schema.delegating_metadata(trusted), schema.delegating_metadata(new)
    if st == schema.R:
        failed.append("trusted_malformed")
    if sn == schema.R:
        failed.append("new_malformed")
    if failed:
        return Verdict(REJECT, "arg", ",".join(failed)), failed
    grey = schema.G in (st, sn)
    ts, ns = trusted["signed"], new["signed"]
    if ts["type"] != "root" or ns["type"] != "root":
        failed.append("type")
    if "root" not in ts["delegations"] or "root" not in ns["delegations"]:
        failed.append("no_root_delegation")
    if "version" not in ts:
        failed.append("type")  # cannot happen for type root (schema requires it)
    if failed:
        return Verdict(REJECT, "arg", ",".join(failed)), failed
    if grey:
        # grey numerics in version/threshold or grey dates: not judged
        return Verdict(GREY, None, "grey metadata"), failed
    if ns["version"] != ts["version"] + 1:
        failed.append("version")
    tr = ts["delegations"]["root"]
    nr = ns["delegations"]["root"]
    v1 = threshold_verdict(new, tr["pubkeys"], tr["threshold"], True)
    v2 = threshold_verdict(new, nr["pubkeys"], nr["threshold"], True)
    if v1.v == REJECT:
        failed.append("old_rule")
    if v2.v == REJECT:
        failed.append("new_rule")
    if failed:
        if failed == ["version"]:
            err = "MetadataVerificationError"
        elif set(failed) <= {"old_rule", "new_rule"}:
            err = "SignatureError"
        else:
            err = None
        return Verdict(REJECT, err, ",".join(failed)), failed
    if GREY in (v1.v, v2.v):
        return Verdict(GREY, None, "grey entries decide"), failed
    return Verdict(ACCEPT, None, "chain step ok", v1.counted), failed


def delegation_verdict(role, untrusted, trusted, gpg=False):
    """C05/C06: (Verdict, failed list)"""
    failed = []
    if not isinstance(role, str):
        return Verdict(REJECT, "arg", "role not a string"), ["role_type"]
    if not (gpg is True or gpg is False):
        if gpg in (0, 1):
            return Verdict(GREY, None, "gpg flag integral"), []
        return Verdict(REJECT, "arg", "gpg flag"), ["gpg_type"]
    st = schema.delegating_metadata(trusted)
    if st == schema.R:
        return Verdict(REJECT, "arg", "trusted malformed"), ["trusted_malformed"]
    su = schema.signable(untrusted)
    if su == schema.R:
        return Verdict(REJECT, "arg", "untrusted not an envelope"), ["untrusted_malformed"]
    if schema.G in (st, su):
        return Verdict(GREY, None, "grey metadata"), []
    # type binding: decided by the SIGNED part alone
    probe = {"signatures": {}, "signed": untrusted["signed"]}
    sp = schema.delegating_metadata(probe)
    dels = trusted["signed"]["delegations"]
    if sp == schema.A and untrusted["signed"]["type"] != role:
        if role not in dels:
            return Verdict(REJECT, None, "declared type != role; role unknown"), [
                "type_for_role",
                "unknown_role",
            ]
        return (
            Verdict(REJECT, "MetadataVerificationError", "declared type != role"),
            ["type_for_role"],
        )
    if role not in dels:
        # if the signed part is grey-zone delegating metadata with a wrong type the
        # library may report either family
        err = "UnknownRoleError" if sp != schema.G else None
        return Verdict(REJECT, err, "role not delegated"), ["unknown_role"]
    if sp == schema.G and untrusted["signed"].get("type") != role:
        return Verdict(GREY, None, "grey delegating metadata with other type"), []
    d = dels[role]
    v = threshold_verdict(untrusted, d["pubkeys"], d["threshold"], gpg)
    if v.v == REJECT:
        failed.append("threshold")
    return v, failed
