"""Hand-written serializer for the frozen wire format of conda-content-trust.

Does not use the `json` module.  Format: UTF-8 of ASCII-escaped JSON, object keys
sorted by code point, two-space indentation, ',' item separator followed by a
newline, ': ' key separator, '{}' / '[]' for empty containers.

Domain: values a JSON parser can return (dict with str keys, list, str, int, float,
bool, None).  Anything else raises Unsupported: the caller decides what the property
says about such a value.
"""


class Unsupported(Exception):
    pass


_ESC = {
    '"': '\\"',
    "\\": "\\\\",
    "\n": "\\n",
    "\r": "\\r",
    "\t": "\\t",
    "\b": "\\b",
    "\f": "\\f",
}


def _str(s):
    out = ['"']
    for ch in s:
        o = ord(ch)
        if ch in _ESC:
            out.append(_ESC[ch])
        elif 0x20 <= o < 0x7F:
            out.append(ch)
        elif o < 0x10000:
            out.append("\\u%04x" % o)
        else:
            o -= 0x10000
            out.append("\\u%04x\\u%04x" % (0xD800 | (o >> 10), 0xDC00 | (o & 0x3FF)))
    out.append('"')
    return "".join(out)


def _float(f):
    if f != f:
        return "NaN"
    if f == float("inf"):
        return "Infinity"
    if f == float("-inf"):
        return "-Infinity"
    return float.__repr__(f)


def _ser(v, level, out):
    t = type(v)
    if v is None:
        out.append("null")
    elif v is True:
        out.append("true")
    elif v is False:
        out.append("false")
    elif t is int:
        out.append(int.__repr__(v))
    elif t is float:
        out.append(_float(v))
    elif t is str:
        out.append(_str(v))
    elif t is list:
        if not v:
            out.append("[]")
            return
        ind = "  " * (level + 1)
        out.append("[\n")
        first = True
        for x in v:
            if not first:
                out.append(",\n")
            first = False
            out.append(ind)
            _ser(x, level + 1, out)
        out.append("\n" + "  " * level + "]")
    elif t is dict:
        if not v:
            out.append("{}")
            return
        for k in v:
            if type(k) is not str:
                raise Unsupported("non-string key %r" % (type(k),))
        ind = "  " * (level + 1)
        out.append("{\n")
        first = True
        for k in sorted(v):
            if not first:
                out.append(",\n")
            first = False
            out.append(ind)
            out.append(_str(k))
            out.append(": ")
            _ser(v[k], level + 1, out)
        out.append("\n" + "  " * level + "}")
    else:
        raise Unsupported("type %r" % (t,))


def canon(v):
    out = []
    _ser(v, 0, out)
    return "".join(out).encode("ascii")


def in_domain(v, _depth=0):
    """True iff v is in the JSON-parser value domain (exact types)."""
    t = type(v)
    if v is None or t in (bool, int, float, str):
        return True
    if t is list:
        return all(in_domain(x, _depth + 1) for x in v)
    if t is dict:
        return all(type(k) is str and in_domain(x, _depth + 1) for k, x in v.items())
    return False
