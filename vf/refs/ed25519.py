"""Independent pure-Python ed25519 (RFC 8032 section 5.1 / 6), used only as an oracle.

Nothing here imports the library under test or the `cryptography` wheel.
Strict verification: rejects S >= L, undecodable A or R; cofactorless equation
[S]B = R + [k]A (all generated keys are of prime order, see DESIGN.md 3.3, so the
cofactored/cofactorless distinction never matters for the cases we judge).
"""
import hashlib
from functools import lru_cache

p = 2**255 - 19
L = 2**252 + 27742317777372353535851937790883648493
d = -121665 * pow(121666, p - 2, p) % p
SQRT_M1 = pow(2, (p - 1) // 4, p)


def _sha512(b):
    return hashlib.sha512(b).digest()


# extended homogeneous coordinates (X, Y, Z, T)
def _add(P, Q):
    A = (P[1] - P[0]) * (Q[1] - Q[0]) % p
    B = (P[1] + P[0]) * (Q[1] + Q[0]) % p
    C = 2 * P[3] * Q[3] * d % p
    D = 2 * P[2] * Q[2] % p
    E, F, G, H = B - A, D - C, D + C, B + A
    return (E * F % p, G * H % p, F * G % p, E * H % p)


def _mul(s, P):
    Q = (0, 1, 1, 0)
    while s > 0:
        if s & 1:
            Q = _add(Q, P)
        P = _add(P, P)
        s >>= 1
    return Q


def _equal(P, Q):
    if (P[0] * Q[2] - Q[0] * P[2]) % p != 0:
        return False
    if (P[1] * Q[2] - Q[1] * P[2]) % p != 0:
        return False
    return True


def _recover_x(y, sign):
    if y >= p:
        return None
    x2 = (y * y - 1) * pow(d * y * y + 1, p - 2, p) % p
    if x2 == 0:
        if sign:
            return None
        return 0
    x = pow(x2, (p + 3) // 8, p)
    if (x * x - x2) % p != 0:
        x = x * SQRT_M1 % p
    if (x * x - x2) % p != 0:
        return None
    if (x & 1) != sign:
        x = p - x
    return x


_gy = 4 * pow(5, p - 2, p) % p
_gx = _recover_x(_gy, 0)
G = (_gx, _gy, 1, _gx * _gy % p)

# fixed-base table for G: 4-bit windows
_GTAB = []


def _build_gtab():
    base = G
    for _ in range(64):
        row = [(0, 1, 1, 0)]
        for _j in range(15):
            row.append(_add(row[-1], base))
        _GTAB.append(row)
        base = _add(row[-1], base)  # 16*base


_build_gtab()


def _mul_base(s):
    Q = (0, 1, 1, 0)
    i = 0
    while s > 0 and i < 64:
        Q = _add(Q, _GTAB[i][s & 15])
        s >>= 4
        i += 1
    if s:
        raise ValueError("scalar too large")
    return Q


def _compress(P):
    zinv = pow(P[2], p - 2, p)
    x = P[0] * zinv % p
    y = P[1] * zinv % p
    return int.to_bytes(y | ((x & 1) << 255), 32, "little")


def _decompress(s):
    if len(s) != 32:
        return None
    y = int.from_bytes(s, "little")
    sign = y >> 255
    y &= (1 << 255) - 1
    x = _recover_x(y, sign)
    if x is None:
        return None
    return (x, y, 1, x * y % p)


def _expand(seed):
    if len(seed) != 32:
        raise ValueError("seed must be 32 bytes")
    h = _sha512(seed)
    a = int.from_bytes(h[:32], "little")
    a &= (1 << 254) - 8
    a |= 1 << 254
    return a, h[32:]


@lru_cache(maxsize=4096)
def public(seed):
    a, _ = _expand(seed)
    return _compress(_mul_base(a))


@lru_cache(maxsize=65536)
def sign(seed, msg):
    a, prefix = _expand(seed)
    A = public(seed)
    r = int.from_bytes(_sha512(prefix + msg), "little") % L
    R = _compress(_mul_base(r))
    h = int.from_bytes(_sha512(R + A + msg), "little") % L
    S = (r + h * a) % L
    return R + int.to_bytes(S, 32, "little")


def sign_with_nonce(seed, msg, nonce):
    """A conforming but non-deterministic signer: r chosen by the caller."""
    a, _ = _expand(seed)
    A = public(seed)
    r = nonce % L
    if r == 0:
        r = 1
    R = _compress(_mul_base(r))
    h = int.from_bytes(_sha512(R + A + msg), "little") % L
    S = (r + h * a) % L
    return R + int.to_bytes(S, 32, "little")


@lru_cache(maxsize=262144)
def verify(pub, msg, sig):
    if len(pub) != 32 or len(sig) != 64:
        return False
    A = _decompress(pub)
    if A is None:
        return False
    Rs = sig[:32]
    R = _decompress(Rs)
    if R is None:
        return False
    S = int.from_bytes(sig[32:], "little")
    if S >= L:
        return False
    h = int.from_bytes(_sha512(Rs + pub + msg), "little") % L
    sB = _mul_base(S)
    hA = _mul(h, A)
    return _equal(sB, _add(R, hA))


def malleate_S(sig):
    """S -> S + L (same point equation, invalid per RFC 8032: S must be < L).
    Returns None when S+L does not fit in 32 bytes... it always fits (L < 2^253)."""
    S = int.from_bytes(sig[32:], "little") + L
    return sig[:32] + int.to_bytes(S, 32, "little")


RFC8032_VECTORS = [
    (
        "9d61b19deffd5a60ba844af492ec2cc44449c5697b326919703bac031cae7f60",
        "d75a980182b10ab7d54bfed3c964073a0ee172f3daa62325af021a68f707511a",
        "",
        "e5564300c360ac729086e2cc806e828a84877f1eb8e5d974d873e065224901555fb8821590a33bacc61e39701cf9b46bd25bf5f0595bbe24655141438e7a100b",
    ),
    (
        "4ccd089b28ff96da9db6c346ec114e0f5b8a319f35aba624da8cf6ed4fb8a6fb",
        "3d4017c3e843895a92b70aa74d1b7ebc9c982ccf2ec4968cc0cd55f12af4660c",
        "72",
        "92a009a9f0d4cab8720e820b5f642540a2b27b5416503f8fb3762223ebdb69da085ac1e43e15996e458f3613d0f11d8c387b2eaeb4302aeeb00d291612bb0c00",
    ),
    (
        "c5aa8df43f9f837bedb7442f31dcb7b166d38535076f094b85ce3a2e0b4458f7",
        "fc51cd8e6218a1a38da47ed00230f0580816ed13ba3303ac5deb911548908025",
        "af82",
        "6291d657deec24024827e69c3abe01a30ce548a284743a445e3680d7db5ac3ac18ff9b538d16f290ae67f760984dc6594a7c15e9716ed28dc027beceea1ec40a",
    ),
    (
        "833fe62409237b9d62ec77587520911e9a759cec1d19755b7da901b96dca3d42",
        "ec172b93ad5e563bf4932c70e1245034c35467ef2efd4d64ebf819683467e2bf",
        "ddaf35a193617abacc417349ae20413112e6fa4e89a97ea20a9eeee64b55d39a2192992a274fc1a836ba3c23a3feebbd454d4423643ce80e2a9ac94fa54ca49f",
        "dc2a4459e7369633a52b1bf277839a00201009a3efbf3ecb69bea2186c26b58909351fc9ac90b3ecfdfbc7c66431e0303dca179c138ac17ad9bef1177331a704",
    ),
]


def selftest():
    for seed, pub, msg, sig in RFC8032_VECTORS:
        seed_b, pub_b, msg_b, sig_b = (bytes.fromhex(x) for x in (seed, pub, msg, sig))
        if public(seed_b) != pub_b:
            return "public() mismatch on RFC 8032 vector"
        if sign(seed_b, msg_b) != sig_b:
            return "sign() mismatch on RFC 8032 vector"
        if not verify(pub_b, msg_b, sig_b):
            return "verify() rejects RFC 8032 vector"
        bad = bytearray(sig_b)
        bad[3] ^= 4
        if verify(pub_b, msg_b, bytes(bad)):
            return "verify() accepts corrupted vector"
        if verify(pub_b, msg_b + b"x", sig_b):
            return "verify() accepts other message"
        if verify(pub_b, msg_b, malleate_S(sig_b)):
            return "verify() accepts S+L"
        s2 = sign_with_nonce(seed_b, msg_b, 123456789)
        if s2 == sig_b or not verify(pub_b, msg_b, s2):
            return "sign_with_nonce() broken"
    return None
