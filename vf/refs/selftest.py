"""Start-up self-tests of the reference oracles.  A failure makes a run inconclusive
(never a violation): the oracle, not the library, is suspect."""
import json
import os

from . import canonjson, ed25519, openpgp, schema


def run(repo):
    """returns None if all references behave, else a short reason"""
    r = ed25519.selftest()
    if r:
        return "ed25519: " + r
    # serializer: hand-checked literals of the frozen format
    lit = [
        ({}, b"{}"),
        ([], b"[]"),
        ({"b": 1, "a": [1.5, None, True, "é\U0001f600\x7f\n"]},
         b'{\n  "a": [\n    1.5,\n    null,\n    true,\n    "\\u00e9\\ud83d\\ude00\\u007f\\n"\n  ],\n  "b": 1\n}'),
        ("x", b'"x"'),
        (float("inf"), b"Infinity"),
        ({"a": {}}, b'{\n  "a": {}\n}'),
    ]
    for v, b in lit:
        if canonjson.canon(v) != b:
            return "canonjson literal mismatch for %r" % (v,)
    # shipped signed fixtures: signatures only verify over the exact frozen bytes
    td = os.path.join(repo, "tests", "testdata")
    try:
        with open(os.path.join(td, "key_mgr.json")) as f:
            km = json.load(f)
        with open(os.path.join(td, "2.root.json")) as f:
            r2 = json.load(f)
    except OSError:
        km = r2 = None
    if km is not None:
        data = canonjson.canon(km["signed"])
        for k, e in km["signatures"].items():
            if not ed25519.verify(bytes.fromhex(k), data, bytes.fromhex(e["signature"])):
                return "fixture key_mgr.json does not verify under the reference"
        data = canonjson.canon(r2["signed"])
        n = 0
        for k, e in r2["signatures"].items():
            if openpgp.verify(
                bytes.fromhex(k), data, bytes.fromhex(e["other_headers"]), bytes.fromhex(e["signature"])
            ):
                n += 1
        if n != 2:
            return "fixture 2.root.json: %d/2 OpenPGP signatures verify under the reference" % n
        if schema.delegating_metadata(r2) != schema.A or schema.delegating_metadata(km) != schema.A:
            return "reference schema rejects shipped fixtures"
    return None
