"""Orchestrator: shards -> worker processes -> merged observation -> verdict,
evidence, replays, known findings."""
import concurrent.futures
import importlib
import json
import os
import re
import shutil
import subprocess
import sys
import tempfile
import time

from . import lib as vlib
from .rec import Merged, jsonable

VERIF = os.path.dirname(os.path.dirname(os.path.abspath(__file__)))
PY = "/venv/bin/python"
DEFAULT_SEED = 20261002

LEVELS = {"C18": "fault_enumeration"}


def base_env(repo, extra=None, hashseed="0"):
    env = {}
    for k in ("PATH", "HOME", "LANG", "TMPDIR", "TERM"):
        if k in os.environ:
            env[k] = os.environ[k]
    env["PYTHONPATH"] = repo + os.pathsep + VERIF
    env["PYTHONDONTWRITEBYTECODE"] = "1"
    env["PYTHONHASHSEED"] = hashseed
    env["CCT_REPO"] = repo
    env["CCT_VERIF"] = "1"
    env["PYTHONIOENCODING"] = "utf-8"
    if extra:
        for k, v in extra.items():
            if v is None:
                env.pop(k, None)
            else:
                env[k] = v
    return env


def run_one_shard(spec, scratch, timeout):
    i = spec["_id"]
    sp = os.path.join(scratch, "spec_%d.json" % i)
    op = os.path.join(scratch, "out_%d.json" % i)
    with open(sp, "w") as f:
        json.dump(spec, f)
    env = base_env(spec["cct_repo"], spec.get("env"), spec.get("hashseed", "0"))
    pyargs = spec.get("pyargs", [])
    cmd = [PY] + pyargs + [os.path.join(VERIF, "vf", "worker.py"), sp, op]
    cwd = spec.get("cwd") or VERIF
    if cwd.startswith("@"):
        cwd = VERIF  # symbolic: the worker creates and enters the directory itself
    t0 = time.time()
    try:
        p = subprocess.run(
            cmd,
            env=env,
            cwd=cwd,
            timeout=timeout,
            stdout=subprocess.PIPE,
            stderr=subprocess.PIPE,
        )
    except subprocess.TimeoutExpired:
        return spec, None, "watchdog: shard %d (%s) exceeded %ds wall clock" % (
            i,
            spec.get("kind"),
            timeout,
        )
    if not os.path.exists(op):
        return spec, None, "shard %d (%s) died rc=%s stderr=%s" % (
            i,
            spec.get("kind"),
            p.returncode,
            p.stderr.decode("utf-8", "replace")[-1500:],
        )
    with open(op) as f:
        d = json.load(f)
    d["_wall"] = time.time() - t0
    return spec, d, None


def load_known_findings():
    known, fixed = [], []
    p = os.path.join(VERIF, "known_findings.txt")
    if os.path.exists(p):
        with open(p) as f:
            for line in f:
                line = line.strip()
                if not line or line.startswith("#"):
                    continue
                m = re.match(r"known:\s+property=(\S+)\s+mechanism=(\S+)\s+(.*)", line)
                if m:
                    known.append((m.group(1), m.group(2), m.group(3)))
                    continue
                m = re.match(r"fixed:\s+property=(\S+)\s+(\S+)\s+mechanism=(\S+)\s+(.*)", line)
                if m:
                    fixed.append((m.group(1), m.group(3), m.group(4)))
    return known, fixed


def mech_matches(pattern, mech):
    # pattern may use '*' wildcards; everything else literal
    rx = "^" + ".*".join(re.escape(x) for x in pattern.split("*")) + "$"
    return re.match(rx, mech) is not None


def run_check(prop, tier, seed, jobs=None):
    t0 = time.time()
    repo = vlib.repo_dir()
    tree = vlib.tree_hash(repo)
    mod = importlib.import_module("vf.props." + prop.lower())
    print("CHECK property=%s tier=%s seed=%d tree=%s repo=%s" % (prop, tier, seed, tree, repo))
    sys.stdout.flush()

    merged = Merged(prop)
    # reference self-tests: a failing oracle makes everything inconclusive
    from .refs import selftest as ref_selftest

    st = ref_selftest.run(repo)
    if st:
        merged.inconclusive_because("reference self-test failed: " + st)

    # witnesses of earlier runs of this property are stale once a new run starts
    # evidence and witnesses under /verif always describe /repo itself; runs against another tree (CCT_REPO: seeded
    # changes, mutants, the pre-fix worktree) write elsewhere
    out_dir = os.environ.get("VERIF_OUT") or (VERIF if repo == os.path.realpath("/repo") else os.path.join(tempfile.gettempdir(), "vf_out_other_tree", os.path.basename(repo.rstrip("/")) or "tree"))
    shutil.rmtree(os.path.join(out_dir, "replays", prop), ignore_errors=True)
    scratch = tempfile.mkdtemp(prefix="vf_%s_" % prop)
    try:
        specs = []
        if not st:
            specs = mod.plan(tier, seed)
        # environment overlays: a share of the ordinary shards of EVERY property runs under another interpreter
        # configuration (no property may depend on time zone, locale, warning filters, hash seed or -O)
        overlays = [None, None, {"env": {"TZ": "Asia/Tokyo"}}, None, {"preimport": ["vf.monitors.strictwarnings"]}, None,
                    {"env": {"LC_ALL": "C", "PYTHONUTF8": "0", "PYTHONCOERCECLOCALE": "0"}}, {"hashseed": "random"}, None,
                    {"pyargs": ["-O"]}, {"env": {"TZ": "America/Los_Angeles", "PYTHONWARNINGS": "error::UserWarning"}}, None,
                    {"stdout_encoding": "ascii"}, None, {"stdout_encoding": "utf-16"}, None,
                    {"umask": 0o077, "enter_cwd": True}, None, {"env": {"HOME": "/nonexistent-home"}, "stdin": "closed", "umask": 0}]
        n_over = 0
        for i, s in enumerate(specs):
            if not any(k in s for k in ("env", "pyargs", "preimport", "hashseed", "cwd", "stdout_encoding", "seed_fixed", "no_overlay")):
                ov = overlays[(i + seed) % len(overlays)]
                if ov:
                    s.update(ov)
                    s["overlay"] = ",".join("%s=%s" % kv for kv in sorted((k, str(v)) for k, v in ov.items()))
                    n_over += 1
        merged.counters["shards_under_config_overlay"] = n_over
        for i, s in enumerate(specs):
            s["_id"] = i
            s["prop"] = prop
            s["tier"] = tier
            s.setdefault("seed", seed * 1000 + i)
            s["cct_repo"] = repo
            s["scratch"] = os.path.join(scratch, "w%d" % i)
            os.makedirs(s["scratch"], exist_ok=True)
        timeout = int(os.environ.get("VERIF_SHARD_TIMEOUT", "900" if tier == "quick" else "5400"))
        jobs = jobs or int(os.environ.get("VERIF_JOBS", str(os.cpu_count() or 4)))
        def run_with_retry(s):
            """a shard that dies (harness/generator error on a rare input, or a watchdog on a loaded machine) is retried once
            with another seed; only a second failure makes the check inconclusive"""
            spec, d, err = run_one_shard(s, scratch, timeout)
            crashed = err or any(r.startswith("worker crashed") for r in (d or {}).get("inconclusive", []))
            if not crashed:
                return spec, d, err, None
            first = err or "; ".join(d.get("inconclusive", [])) + " :: " + (d.get("extra", {}).get("traceback", "")[-600:])
            if not s.get("seed_fixed"):
                s = dict(s, seed=s["seed"] + 7919)
            spec2, d2, err2 = run_one_shard(s, scratch, timeout)
            return spec2, d2, err2, first

        with concurrent.futures.ThreadPoolExecutor(max_workers=jobs) as ex:
            futs = [ex.submit(run_with_retry, s) for s in specs]
            for fu in concurrent.futures.as_completed(futs):
                spec, d, err, first = fu.result()
                if first:
                    merged.count("shard_retries")
                    print("  NOTE shard %d (%s) retried after: %s" % (spec["_id"], spec.get("kind"), first.replace("\n", " | ")[:700]))
                if err:
                    merged.inconclusive_because(err)
                    continue
                merged.add(spec, d)
                h = merged.hists.setdefault("config_overlay", {})
                h[spec.get("overlay", "none")] = h.get(spec.get("overlay", "none"), 0) + 1
        if hasattr(mod, "finish") and not st:
            mod.finish(merged, tier, seed)
    finally:
        shutil.rmtree(scratch, ignore_errors=True)

    # ---- verdict ------------------------------------------------------------------
    known, fixed = load_known_findings()
    new_viol, known_hits = [], {}
    for v in merged.violations:
        hit = None
        for (pid, pat, what) in known:
            if pid == prop and mech_matches(pat, v["mechanism"]):
                hit = (pat, what)
                break
        if hit:
            known_hits[hit] = known_hits.get(hit, 0) + 1
        else:
            new_viol.append(v)
    # also account for mechanisms whose witnesses were capped away
    for mech, n in merged.viol_mechs.items():
        if any(v["mechanism"] == mech for v in merged.violations):
            continue
        is_known = any(pid == prop and mech_matches(pat, mech) for (pid, pat, _w) in known)
        if not is_known:
            new_viol.append({"mechanism": mech, "message": "(witness capped)", "case": None})

    wall = time.time() - t0
    for k in sorted(merged.counters):
        print("  counter %-46s %d" % (k, merged.counters[k]))
    for hn in sorted(merged.hists):
        items = sorted(merged.hists[hn].items(), key=lambda kv: (-kv[1], kv[0]))
        shown = ", ".join("%s=%d" % kv for kv in items[:14])
        print("  hist %-24s (%d keys) %s" % (hn, len(items), shown))
    print(
        "  evaluations=%d distinct_nontrivial=%d shards=%d wall=%.1fs"
        % (merged.evaluations, len(merged.distinct), merged.shards, wall)
    )

    for (pat, what), n in sorted(known_hits.items()):
        print("KNOWN-FINDING: property=%s mechanism=%s %s (%d witnesses)" % (prop, pat, what, n))

    rc = 0
    replay_paths = []
    if new_viol:
        rc = 1
        rdir = os.path.join(out_dir, "replays", prop)
        os.makedirs(rdir, exist_ok=True)
        seen_mech = {}
        for v in new_viol:
            m = v["mechanism"]
            seen_mech[m] = seen_mech.get(m, 0) + 1
            if seen_mech[m] > 1:
                continue
            slug = re.sub(r"[^A-Za-z0-9_.-]+", "_", m)[:80]
            path = os.path.join(rdir, "%s-%d.json" % (slug, len(replay_paths)))
            with open(path, "w") as f:
                json.dump(
                    {
                        "property": prop,
                        "mechanism": m,
                        "message": v["message"],
                        "tier": tier,
                        "seed": seed,
                        "tree": tree,
                        "case": v["case"],
                    },
                    f,
                    indent=1,
                )
            replay_paths.append(path)
            print("  witness mechanism=%s :: %s" % (m, (v["message"] or "")[:400]))
            print("VIOLATION property=%s replay=%s" % (prop, path))
    elif merged.inconclusive:
        rc = 2
        for r in merged.inconclusive:
            print("INCONCLUSIVE property=%s reason=%s" % (prop, r.replace("\n", " | ")[:1500]))
    if rc == 0 and merged.evaluations == 0:
        rc = 2
        print("INCONCLUSIVE property=%s reason=no evaluations" % prop)
    if rc == 0:
        print(
            "HELD property=%s on %d executions (%d distinct non-trivial)"
            % (prop, merged.evaluations, len(merged.distinct))
        )

    # ---- evidence -----------------------------------------------------------------
    level = LEVELS.get(prop, "exploration")
    cov = {
        "evaluations": merged.evaluations,
        "distinct_nontrivial": len(merged.distinct),
        "rule": getattr(mod, "RULE", ""),
        "samples": merged.samples[:6] or ["<none>"],
        "counters": merged.counters,
        "histograms": {
            k: dict(sorted(v.items(), key=lambda kv: (-kv[1], kv[0]))[:60])
            for k, v in merged.hists.items()
        },
        "shards": merged.shards,
        "tree_hash": tree,
        "verdict": {0: "held", 1: "violation", 2: "inconclusive"}[rc],
        "inconclusive_reasons": merged.inconclusive,
        "known_findings_hit": [
            {"mechanism": pat, "what": what, "witnesses": n} for (pat, what), n in known_hits.items()
        ],
        "violation_mechanisms": sorted({v["mechanism"] for v in new_viol}),
        "limits": getattr(mod, "LIMITS", []),
    }
    if hasattr(mod, "evidence_extra"):
        cov.update(mod.evidence_extra(merged))
    ev = {
        "property_id": prop,
        "tier": tier,
        "seed": seed,
        "level": level,
        "coverage": jsonable_keep(cov),
        "assumptions": getattr(mod, "ASSUMPTIONS", []),
        "wall_s": round(wall, 2),
        "violations": len(new_viol),
    }
    os.makedirs(os.path.join(out_dir, "evidence"), exist_ok=True)
    ep = os.path.join(out_dir, "evidence", prop + ".json")
    with open(ep + ".tmp", "w") as f:
        json.dump(ev, f, indent=1, allow_nan=False)
    os.replace(ep + ".tmp", ep)
    return rc


def jsonable_keep(o):
    """strict-JSON-safe copy without the truncation jsonable() applies to samples"""
    if isinstance(o, dict):
        return {str(k): jsonable_keep(v) for k, v in o.items()}
    if isinstance(o, (list, tuple)):
        return [jsonable_keep(v) for v in o]
    if isinstance(o, float) and (o != o or o in (float("inf"), float("-inf"))):
        return str(o)
    if isinstance(o, str):
        try:
            o.encode("utf-8")
            return o
        except UnicodeEncodeError:
            return o.encode("unicode_escape").decode("ascii")
    return o


def replay(prop, path):
    with open(path) as f:
        doc = json.load(f)
    mod = importlib.import_module("vf.props." + prop.lower())
    cfg = {}
    case = doc.get("case") or {}
    if isinstance(case, dict) and case.get("config"):
        for c in getattr(mod, "CONFIGS", []):
            if c.get("name") == case["config"]:
                cfg = c
    lib = vlib.load(preimport=cfg.get("preimport", ()))
    from .monitors.sink import Sink
    from .rec import Recorder

    rec = Recorder(prop)
    real = sys.stdout
    sink = Sink(cfg.get("stdout_encoding", "utf-8"), cfg.get("stdout_errors", "strict")).install()
    try:
        mod.replay(doc["case"], rec, lib)
    finally:
        sink.uninstall()
        sys.stdout = real
    print("REPLAY property=%s mechanism=%s" % (prop, doc.get("mechanism")))
    print("  recorded message: %s" % doc.get("message"))
    if rec.violations:
        for v in rec.violations:
            print("  reproduced: mechanism=%s :: %s" % (v["mechanism"], v["message"]))
        print("VIOLATION property=%s replay=%s" % (prop, path))
        return 1
    print("  not reproduced on this tree (evaluations=%d)" % rec.evaluations)
    return 0
