"""C19 - key material round-trips losslessly and matches RFC 8032."""
import os
import random

from .. import lib as vlib

from ..gen import caselang, keys as gkeys
from ..monitors import boundary
from ..refs import ed25519

RULE = (
    "32-byte seeds (edge seeds, RFC 8032 vectors, random) x messages: library public key / hex / signature compared with an "
    "independent RFC 8032 implementation; random walks over the conversion graph bytes<->object<->hex (private and public); "
    "equivalence relation laws; key files; malformed encodings of every class. distinct = distinct (seed, sub-check) pairs."
)
RULE_ADDENDUM = (
    'Additional: key rotation histories (direct write, other spelling of the path, relative name after chdir, same name), repeat-after-reject of malformed encodings, hex key files read by the command line (leading zeros, orphan entries by another key), conversions under threads.'
)
RULE = RULE + " " + RULE_ADDENDUM
LIMITS = ["public keys that are not valid curve points are only used for conversion round trips, not for verification"]
ASSUMPTIONS = ["vf/refs/ed25519.py implements RFC 8032 (vectors checked at start-up)"]


def plan(tier, seed):
    n = 1200 if tier == "quick" else 12000
    shards = 6 if tier == "quick" else 16
    specs = [{"kind": "seeds", "count": n // shards} for _ in range(shards)]
    specs.append({"kind": "vectors"})
    specs.append({"kind": "malformed", "count": 300 if tier == "quick" else 6000})
    specs.append({"kind": "malformed", "count": 300 if tier == "quick" else 3000, "after_activity": True})
    specs.append({"kind": "files", "count": 20 if tier == "quick" else 400})
    for T in ([4] if tier == "quick" else [2, 4, 8, 16]):
        specs.append({"kind": "threads", "threads": T, "count": 400 if tier == "quick" else 6000})
    return specs


def viol(rec, mech, msg, case):
    rec.violation(mech, msg, case)


def check_seed(seed, msg, rec, lib, rng):
    C = lib.common
    case = {"kind": "seed", "seed": seed.hex(), "msg": msg.hex()}
    rec.case("seed|" + seed.hex())
    ref_pub = ed25519.public(seed)
    ref_sig = ed25519.sign(seed, msg)
    o = boundary.call(lib, C.PrivateKey.from_bytes, seed)
    if not o.accepted:
        viol(rec, boundary.mechanism("key-load", "PrivateKey.from_bytes", "object", o), "valid 32-byte seed rejected", case)
        return
    priv = o.value
    pub = priv.public_key()
    got_pub = C.PublicKey.to_bytes(pub)
    if got_pub != ref_pub:
        viol(rec, "rfc8032/public-key-differs", "derived public key differs from RFC 8032", case)
    if C.PublicKey.to_hex(pub) != ref_pub.hex():
        viol(rec, "rfc8032/public-hex-differs", "hex of derived public key differs", case)
    if C.PrivateKey.to_bytes(priv) != seed:
        viol(rec, "roundtrip/private-bytes", "PrivateKey.to_bytes(from_bytes(seed)) != seed", case)
    if C.PrivateKey.to_hex(priv) != seed.hex():
        viol(rec, "roundtrip/private-hex", "PrivateKey.to_hex != hex(seed)", case)
    sig = priv.sign(msg)
    rec.count("signatures_compared")
    if sig != ref_sig:
        viol(rec, "rfc8032/signature-differs", "PrivateKey.sign differs from RFC 8032 (deterministic) signature", case)
    if priv.sign(msg) != sig:
        viol(rec, "determinism/sign-twice-differs", "signing twice gives different signatures", case)
    # serialize_and_sign / sign_signable file under the same hex
    S = lib.signing
    env = S.wrap_as_signable({"m": msg.hex()})
    S.sign_signable(env, priv)
    if list(env["signatures"]) != [ref_pub.hex()]:
        viol(rec, "filing/sign_signable-files-under-other-key", "entry filed under %r" % list(env["signatures"]), case)
    # conversion random walk, private side
    val = ("pbytes", seed)
    for _ in range(rng.randint(3, 9)):
        kind, v = val
        if kind == "pbytes":
            val = ("pobj", C.PrivateKey.from_bytes(v))
        elif kind == "phex":
            val = ("pobj", C.PrivateKey.from_hex(v))
        else:
            val = rng.choice([("pbytes", C.PrivateKey.to_bytes(v)), ("phex", C.PrivateKey.to_hex(v))])
    kind, v = val
    end = v if kind == "pbytes" else bytes.fromhex(v) if kind == "phex" else C.PrivateKey.to_bytes(v)
    rec.count("conversion_walks")
    if end != seed:
        viol(rec, "roundtrip/private-walk", "private conversion walk ended at another value", case)
    val = ("bytes", ref_pub)
    for _ in range(rng.randint(3, 9)):
        kind, v = val
        if kind == "bytes":
            val = ("obj", C.PublicKey.from_bytes(v))
        elif kind == "hex":
            val = ("obj", C.PublicKey.from_hex(v))
        else:
            val = rng.choice([("bytes", C.PublicKey.to_bytes(v)), ("hex", C.PublicKey.to_hex(v))])
    kind, v = val
    end = v if kind == "bytes" else bytes.fromhex(v) if kind == "hex" else C.PublicKey.to_bytes(v)
    rec.count("conversion_walks")
    if end != ref_pub:
        viol(rec, "roundtrip/public-walk", "public conversion walk ended at another value", case)
    # equivalence laws
    priv2 = C.PrivateKey.from_hex(seed.hex())
    pub2 = C.PublicKey.from_bytes(ref_pub)
    other_seed = bytes(rng.getrandbits(8) for _ in range(32))
    if other_seed == seed:
        other_seed = bytes(32) if seed != bytes(32) else b"\x01" * 32
    opriv = C.PrivateKey.from_bytes(other_seed)
    opub = opriv.public_key()
    laws = [
        ("reflexive-private", C.PrivateKey.is_equivalent_to(priv, priv), True),
        ("reflexive-public", C.PublicKey.is_equivalent_to(pub, pub), True),
        ("same-seed-private", C.PrivateKey.is_equivalent_to(priv, priv2), True),
        ("symmetric-private", C.PrivateKey.is_equivalent_to(priv2, priv), True),
        ("same-bytes-public", C.PublicKey.is_equivalent_to(pub2, C.PublicKey.from_hex(ref_pub.hex())), True),
        ("other-seed-private", C.PrivateKey.is_equivalent_to(priv, opriv), False),
        ("other-seed-private-sym", C.PrivateKey.is_equivalent_to(opriv, priv), False),
        ("other-seed-public", C.PublicKey.is_equivalent_to(pub2, C.PublicKey.from_bytes(C.PublicKey.to_bytes(opub))), False),
        ("private-vs-public", C.PrivateKey.is_equivalent_to(priv, pub2), False),
        ("public-vs-private", C.PublicKey.is_equivalent_to(pub2, priv), False),
        # a public key object whose 32 raw bytes happen to equal the private seed is still another key
        ("private-vs-public-same-raw-bytes", C.PrivateKey.is_equivalent_to(priv, C.PublicKey.from_bytes(seed)), False),
        ("public-same-raw-bytes-vs-private", C.PublicKey.is_equivalent_to(C.PublicKey.from_bytes(seed), priv), False),
        ("private-vs-public-same-raw-bytes[via PublicKey]", C.PublicKey.is_equivalent_to(priv, C.PublicKey.from_bytes(seed)), False),
        ("private-from-pubbytes-vs-public", C.PrivateKey.is_equivalent_to(C.PrivateKey.from_bytes(ref_pub), pub2), False),
    ]
    for name, got, want in laws:
        rec.count("equivalence_checks")
        if got is not want:
            viol(rec, "equivalence/" + name, "is_equivalent_to returned %r, expected %r" % (got, want), case)
    # the reference verifier accepts the library's signature and the library accepts
    # the reference's (foreign nonce) signature
    A = lib.authentication
    s2 = ed25519.sign_with_nonce(seed, msg, rng.getrandbits(250))
    o = boundary.call(lib, A.verify_signature, s2.hex(), pub2, msg)
    if not o.accepted:
        viol(rec, boundary.mechanism("interop", "verify_signature", "accept", o), "conforming foreign signature rejected", case)
    bad = bytearray(sig)
    bad[rng.randrange(64)] ^= 1 << rng.randrange(8)
    o = boundary.call(lib, A.verify_signature, bytes(bad).hex(), pub2, msg)
    if o.accepted:
        viol(rec, "interop/verify_signature/accepts-corrupted", "corrupted signature accepted", case)
    elif o.family != "InvalidSignature":
        viol(rec, boundary.mechanism("error-family", "verify_signature", "InvalidSignature", o), "wrong error for bad signature", case)


def run_seeds(spec, rec, lib):
    rng = random.Random(spec["seed"])
    for i in range(spec["count"]):
        if i < len(gkeys.EDGE_SEEDS) and spec["_id"] == 0:
            seed = gkeys.EDGE_SEEDS[i]
        else:
            seed = bytes(rng.getrandbits(8) for _ in range(32))
        n = rng.choice([0, 1, 32, 33, 64, 200, 1000])
        msg = bytes(rng.getrandbits(8) for _ in range(n))
        check_seed(seed, msg, rec, lib, rng)
        if i < 2:
            rec.sample({"seed": seed.hex(), "msg_len": n})


def run_vectors(spec, rec, lib):
    rng = random.Random(1)
    for seed, pub, msg, sig in ed25519.RFC8032_VECTORS:
        check_seed(bytes.fromhex(seed), bytes.fromhex(msg), rec, lib, rng)
        C = lib.common
        k = C.PrivateKey.from_hex(seed)
        rec.case("vector|" + seed)
        if C.PublicKey.to_hex(k.public_key()) != pub or k.sign(bytes.fromhex(msg)).hex() != sig:
            viol(rec, "rfc8032/vector-mismatch", "RFC 8032 7.1 test vector not reproduced", {"kind": "vector", "seed": seed})
    rec.sample({"rfc8032_vectors": len(ed25519.RFC8032_VECTORS)})


MALFORMED_BYTES = [
    {"$py": "bytes", "hex": "00" * 31}, {"$py": "bytes", "hex": "00" * 33}, {"$py": "bytes", "hex": ""},
    {"$py": "bytes", "hex": "00" * 64}, "00" * 32, "a" * 32, None, 5, [0] * 32, {"$py": "memoryview"},
    {"$py": "tuple", "items": [0] * 32}, {"$py": "object"}, 1.5, True,
]
MALFORMED_HEX = [
    "00" * 31, "00" * 33, "0" * 63, "0" * 65, "", "AB" * 32, "ab" * 31 + "aB", " " + "ab" * 31 + "a", "ab" * 32 + "\n",
    "0x" + "ab" * 31, "zz" * 32, {"$py": "bytes", "hex": "ab" * 32}, {"$py": "bytes", "hex": "61" * 64}, None, 5, ["ab" * 32],
    "ab" * 31 + "a\n", "ab" * 31 + "a ", "ab" * 31 + "a\r", "\n" + "ab" * 31 + "a", "ab" * 31 + "a\x00", "ab" * 31 + "a\u2028",
    "٠" * 64, "ａ" * 64, "ab" * 16 + " " + "ab" * 15 + "a", {"$py": "object"}, {"$py": "tuple", "items": ["ab" * 32]},
]


def run_malformed(spec, rec, lib):
    rng = random.Random(spec["seed"])
    C = lib.common
    if spec.get("after_activity"):
        # what a key encoding is does not depend on what happened earlier in the process: every kind of unrelated activity first
        # (command-line runs that end early on unreadable key files, calls with each switchable option on, failed loads, ...)
        from ..engines import noise

        noise.provoke(lib, rng, spec.get("scratch"))
        rec.count("malformed_encodings_offered_after_unrelated_activity")
    targets = [
        ("common.PrivateKey.from_bytes", MALFORMED_BYTES),
        ("common.PublicKey.from_bytes", MALFORMED_BYTES),
        ("common.PrivateKey.from_hex", MALFORMED_HEX),
        ("common.PublicKey.from_hex", MALFORMED_HEX),
        ("common.checkformat_hex_key", MALFORMED_HEX),
    ]
    n = 0
    while n < spec["count"]:
        for dotted, pal in targets:
            for a in pal:
                n += 1
                arg = caselang.dec(a, lib)
                o = boundary.call(lib, lib.fn(dotted), arg)
                rec.case("malformed|%s|%s" % (dotted, boundary.fingerprint(arg)))
                rec.hist("malformed_outcome", o.family if not o.accepted else "accept")
                case = {"kind": "malformed", "fn": dotted, "arg": a}
                if o.accepted:
                    viol(rec, "malformed-accepted/" + dotted, "malformed key encoding accepted: %r" % (a,), case)
                elif o.family not in ("TypeError", "ValueError"):
                    viol(rec, boundary.mechanism("undocumented-error", dotted, "TypeError|ValueError", o),
                         "malformed key encoding raised %s" % o.cls, case)
                else:
                    # the same malformed value again, right after it has been rejected (and after a valid key of the same kind
                    # has been loaded): still rejected
                    good = gkeys.key(n % 7)
                    try:
                        (C.PrivateKey if "Private" in dotted else C.PublicKey).from_bytes(good.seed if "Private" in dotted else good.pub)
                    except Exception:  # noqa: BLE001
                        pass
                    for _rep in range(2):
                        o2 = boundary.call(lib, lib.fn(dotted), caselang.dec(a, lib))
                        rec.count("malformed_repeats")
                        if o2.accepted:
                            viol(rec, "malformed-accepted/" + dotted + "/on-repeat",
                                 "malformed key encoding %r rejected the first time, accepted when offered again" % (a,), case)
                            break
        # random lengths
        for dotted in ("common.PrivateKey.from_bytes", "common.PublicKey.from_bytes"):
            ln = rng.choice([l for l in range(0, 70) if l != 32])
            arg = bytes(rng.getrandbits(8) for _ in range(ln))
            o = boundary.call(lib, lib.fn(dotted), arg)
            n += 1
            rec.case("malformed-len|%s|%d" % (dotted, ln))
            if o.accepted or o.family not in ("TypeError", "ValueError"):
                viol(rec, "malformed-length/" + dotted + "/" + ("accepted" if o.accepted else o.cls),
                     "%d-byte key material: %s" % (ln, o.brief()), {"kind": "malformed", "fn": dotted, "arg": {"$py": "bytes", "hex": arg.hex()}})
    # the predicate used for key strings everywhere must say False for every malformed encoding
    for a in MALFORMED_HEX:
        o = boundary.call(lib, C.is_hex_key, caselang.dec(a, lib))
        rec.case("malformed|is_hex_key|%s" % boundary.fingerprint(caselang.dec(a, lib)))
        if not o.accepted or o.value is not False:
            viol(rec, "malformed-accepted/common.is_hex_key", "is_hex_key(%r) -> %s" % (a, o.value if o.accepted else o.brief()),
                 {"kind": "malformed", "fn": "common.is_hex_key", "arg": a})
    # is_equivalent_to with non-keys
    for a in (None, 5, "ab" * 32, b"\x00" * 32):
        k = C.PrivateKey.from_bytes(bytes(32))
        o = boundary.call(lib, C.PrivateKey.is_equivalent_to, k, a)
        rec.case("equiv-nonkey|" + repr(a))
        if o.accepted and o.value is not False:
            viol(rec, "equivalence/non-key-equal", "is_equivalent_to(key, %r) -> %r" % (a, o.value), {"kind": "equiv", "arg": repr(a)})
        elif not o.accepted and o.family not in ("TypeError", "ValueError"):
            viol(rec, boundary.mechanism("undocumented-error", "is_equivalent_to", "TypeError|ValueError", o), "non-key argument", {"kind": "equiv", "arg": repr(a)})
    rec.sample({"malformed_examples": [MALFORMED_HEX[0], MALFORMED_HEX[5]]})


def run_files(spec, rec, lib):
    C, M = lib.common, lib.metadata_construction
    d = spec["scratch"]
    for i in range(spec["count"]):
        names = vlib.fs_names(["key%d", "signer.%d", "5.root.%d", "a.b.c%d", "key%d.pri", "k e y %d", "cl\u00e9%d", ".hidden%d", "signer.v%d.json",
                                "cle\u0301%d", "\u212bngstrom%d", "\u2126hm%d"])
        base = os.path.join(d, names[i % len(names)] % i)
        # the target names may already exist (older key files of other sizes / formats, e.g. a hex-encoded key)
        pre = ["none", "longer_hex", "shorter", "same_size", "much_longer"][i % 5]
        if pre != "none":
            for ext in (".pri", ".pub"):
                with open(base + ext, "wb") as fh:
                    fh.write({"longer_hex": b"ab" * 32 + b"\n", "shorter": b"\x01" * 7, "same_size": b"\x02" * 32, "much_longer": b"\x03" * 4096}[pre])
        rec.hist("preexisting_keyfile", pre)
        listing_before = set(os.listdir(d))
        o = boundary.call(lib, M.gen_and_write_keys, base)
        rec.case("files|%d" % i)
        case = {"kind": "files"}
        gained = set(os.listdir(d)) - listing_before
        bn = os.path.basename(base)
        if o.accepted and gained and not all(g.startswith(bn) for g in gained):
            # key files appeared under ANOTHER name than the one given (e.g. a normalised respelling of it)
            viol(rec, "keyfiles/written-under-another-name", "gen_and_write_keys(%r) created %r" % (bn, sorted(gained)), case)
            continue
        if not o.accepted:
            viol(rec, boundary.mechanism("keyfiles", "gen_and_write_keys", "return", o), "key generation failed", case)
            continue
        priv, pub = o.value
        for ext in (".pri", ".pub"):
            if os.path.exists(base + ext) and os.path.getsize(base + ext) != 32:
                rec.count("hint_keyfile_size_not_32")  # the on-disk format is not part of the statement; the round trip below is
        ok_keys, ok_bytes = boundary.call(lib, C.keyfiles_to_keys, base), boundary.call(lib, C.keyfiles_to_bytes, base)
        rec.count("keyfile_roundtrips")
        if not (ok_keys.accepted and ok_bytes.accepted):
            bad = ok_keys if not ok_keys.accepted else ok_bytes
            viol(rec, boundary.mechanism("keyfiles", "load-back-after-gen_and_write_keys", "keys", bad),
                 "keys just written under this name do not load back (%s)" % bad.brief(), case)
            continue
        (p2, q2), (pb, qb) = ok_keys.value, ok_bytes.value
        ok = (
            C.PrivateKey.is_equivalent_to(priv, p2)
            and C.PublicKey.is_equivalent_to(pub, q2)
            and pb == C.PrivateKey.to_bytes(priv)
            and qb == C.PublicKey.to_bytes(pub)
            and ed25519.public(pb) == qb
        )
        if not ok:
            viol(rec, "keyfiles/roundtrip-not-equivalent", "keys read back differ from keys written", case)
        # history: the name has been loaded once; the key files are then replaced (rotation) by another route - written
        # directly, generated again through another spelling of the path, or through a relative name from another working
        # directory - and loaded again under the ORIGINAL name: what loads is what the files now hold
        route = ["direct_write", "other_spelling", "relative_after_chdir", "same_name_again"][i % 4]
        k2 = gkeys.key(20 + i % 10)
        want = None
        try:
            if route == "direct_write":
                with open(base + ".pri", "wb") as fh:
                    fh.write(k2.seed)
                with open(base + ".pub", "wb") as fh:
                    fh.write(k2.pub)
                want = (k2.seed, k2.pub)
            elif route == "other_spelling":
                o2 = boundary.call(lib, M.gen_and_write_keys, os.path.join(os.path.dirname(base), ".", os.path.basename(base)))
                want = (C.PrivateKey.to_bytes(o2.value[0]), C.PublicKey.to_bytes(o2.value[1])) if o2.accepted else None
            elif route == "relative_after_chdir":
                cwd = os.getcwd()
                os.chdir(os.path.dirname(base))
                try:
                    o2 = boundary.call(lib, M.gen_and_write_keys, os.path.basename(base))
                    rel = boundary.call(lib, C.keyfiles_to_bytes, os.path.basename(base))
                finally:
                    os.chdir(cwd)
                want = (C.PrivateKey.to_bytes(o2.value[0]), C.PublicKey.to_bytes(o2.value[1])) if o2.accepted else None
                if want and (not rel.accepted or tuple(rel.value) != want):
                    viol(rec, "keyfiles/stale-after-rotation/relative-name", "relative name loads other keys than were just written under it", case)
            else:
                o2 = boundary.call(lib, M.gen_and_write_keys, base)
                want = (C.PrivateKey.to_bytes(o2.value[0]), C.PublicKey.to_bytes(o2.value[1])) if o2.accepted else None
        except OSError:
            want = None
        if want is not None:
            rec.count("keyfile_rotations")
            rec.hist("rotation_route", route)
            ob = boundary.call(lib, C.keyfiles_to_bytes, base)
            ok2 = boundary.call(lib, C.keyfiles_to_keys, base)
            if not ob.accepted or tuple(ob.value) != want:
                viol(rec, "keyfiles/stale-after-rotation/keyfiles_to_bytes/" + route,
                     "after the key files were replaced (%s), the name still loads the earlier key material" % route, case)
            elif not ok2.accepted or C.PrivateKey.to_bytes(ok2.value[0]) != want[0] or C.PublicKey.to_bytes(ok2.value[1]) != want[1]:
                viol(rec, "keyfiles/stale-after-rotation/keyfiles_to_keys/" + route,
                     "after the key files were replaced (%s), the name still loads the earlier keys" % route, case)
            priv = C.PrivateKey.from_bytes(want[0])
            pb = want[0]
        # the files are named exactly <name>.pri / <name>.pub, and an earlier pair written under another name is still its own
        if not (os.path.exists(base + ".pri") and os.path.exists(base + ".pub")):
            rec.count("hint_keyfiles_not_at_name_dot_pri_pub")
        prev = getattr(run_files, "_prev_pair", None)
        if prev is not None:
            pbase, ppriv = prev
            try:
                p3, _q3 = C.keyfiles_to_keys(pbase)
                same = C.PrivateKey.is_equivalent_to(ppriv, p3)
            except Exception:
                same = False
            if not same:
                viol(rec, "keyfiles/earlier-pair-clobbered-by-later-name", "writing keys under another name changed what an earlier name loads", case)
        run_files._prev_pair = (base, priv)
        # fresh keys differ from each other
        if i > 0 and pb == getattr(run_files, "_prev", None):
            viol(rec, "keyfiles/same-key-twice", "two generated keys are identical", case)
        run_files._prev = pb
    # key files of the wrong length (written by other tools: trailing newline, seed||pub, hex text, truncated) are not keys
    k = gkeys.key(5)
    for label, pri, pub in (("trailing_newline", k.seed + b"\n", k.pub + b"\n"), ("seed_then_pub_64", k.seed + k.pub, k.pub),
                            ("hex_text", k.seed.hex().encode(), k.pub.hex().encode()), ("truncated_31", k.seed[:31], k.pub[:31]),
                            ("empty", b"", b""), ("pub_only_long", k.seed, k.pub + b"\x00")):
        base = os.path.join(d, "wrong_" + label)
        with open(base + ".pri", "wb") as fh:
            fh.write(pri)
        with open(base + ".pub", "wb") as fh:
            fh.write(pub)
        rec.case("files|wrong-length|" + label)
        ob = boundary.call(lib, C.keyfiles_to_bytes, base)
        if ob.accepted and tuple(ob.value) != (pri, pub):
            viol(rec, "keyfiles/keyfiles_to_bytes-not-lossless", "%s: returned %d/%d bytes for files of %d/%d bytes"
                 % (label, len(ob.value[0]), len(ob.value[1]), len(pri), len(pub)), {"kind": "files"})
        ok = boundary.call(lib, C.keyfiles_to_keys, base)
        if ok.accepted:
            viol(rec, "keyfiles/wrong-length-key-file-accepted/" + label, "key files of %d/%d bytes loaded as keys" % (len(pri), len(pub)), {"kind": "files"})
        elif ok.family not in ("TypeError", "ValueError"):
            viol(rec, boundary.mechanism("undocumented-error", "keyfiles_to_keys", "TypeError|ValueError", ok), label, {"kind": "files"})
    # the hex form of a private key as the command line reads it from a key file: every 32-byte seed is a key, whatever digits
    # its hex text begins or ends with
    import json as _json

    from ..refs import canonjson as _canon

    seeds = [bytes([0x0B]) + bytes(range(1, 32)), bytes([0, 0, 0, 1]) + bytes(range(4, 32)), bytes(32), bytes([0x00, 0x0E]) + bytes(range(2, 32)),
             b"\xff" * 32, bytes(range(1, 29)) + bytes(4), gkeys.key(2).seed]
    for j, seed in enumerate(seeds):
        rp, kp = os.path.join(d, "cli-repodata-%d.json" % j), os.path.join(d, "cli-key-%d.txt" % j)
        md = {"name": "a", "version": "1.0", "n": j}
        with open(rp, "w") as fh:
            doc = {"packages": {"a-1.0-0.tar.bz2": md}, "packages.conda": {}}
            if j % 2 == 0:
                # history kept in the file: entries made earlier by ANOTHER key, for artifacts that are no longer listed and for the listed one
                other = gkeys.key(9)
                doc["signatures"] = {"withdrawn-0.1-0.tar.bz2": {other.hex: {"signature": "ab" * 64}},
                                     "a-1.0-0.tar.bz2": {other.hex: {"signature": "cd" * 64}}}
            _json.dump(doc, fh)
        with open(kp, "w") as fh:
            fh.write(seed.hex() + ("\n" if j % 2 else ""))
        try:
            o = boundary.call(lib, lib.cli.cli, ["sign-artifacts", rp, kp])
        except SystemExit as e:
            o = None
            rec.count("cli_keyfile_systemexit:%s" % (e.code,))
        rec.case("files|cli-hex-keyfile|%d" % j)
        rec.count("cli_hex_keyfile_runs")
        want = {ed25519.public(seed).hex(): {"signature": ed25519.sign(seed, _canon.canon(md)).hex()}}
        try:
            with open(rp) as fh:
                got = _json.load(fh).get("signatures", {}).get("a-1.0-0.tar.bz2")
        except Exception:  # noqa: BLE001
            got = None
        if got != want:
            viol(rec, "rfc8032/cli-hex-keyfile/signature-or-public-key-differs",
                 "sign-artifacts with the hex key %s... did not file the RFC 8032 signature under the RFC 8032 public key (got %s)"
                 % (seed.hex()[:8], "nothing" if not got else "other values"), {"kind": "files", "seed": seed.hex()})
    g = boundary.call(lib, M.gen_keys)
    if g.accepted:
        priv, pub = g.value
        if ed25519.public(C.PrivateKey.to_bytes(priv)) != C.PublicKey.to_bytes(pub):
            viol(rec, "rfc8032/gen_keys-pair-mismatch", "gen_keys returned a public key not derived from the private key", {"kind": "files"})


def run_threads(spec, rec, lib):
    """conversions of DIFFERENT keys running at the same time each return their own key's RFC 8032 values"""
    from ..engines import threads

    rng = random.Random(spec["seed"])
    C = lib.common
    jobs, meta = [], []

    def chain_pub(hexkey):
        k = C.PublicKey.from_hex(hexkey)
        return C.PublicKey.to_hex(k), C.PublicKey.to_bytes(k)

    def chain_priv(seed, msg):
        k = C.PrivateKey.from_bytes(seed)
        return C.PrivateKey.to_hex(k), C.PublicKey.to_hex(k.public_key()), k.sign(msg)

    def chain_priv_hex(seedhex, msg):
        k = C.PrivateKey.from_hex(seedhex)
        return C.PrivateKey.to_bytes(k), C.PublicKey.to_bytes(k.public_key()), k.sign(msg)

    for i in range(spec["count"]):
        seed = rng.getrandbits(256).to_bytes(32, "big") if rng.random() < 0.7 else gkeys.key(rng.randrange(6)).seed
        msg = rng.getrandbits(8 * 20).to_bytes(20, "big")
        pub = ed25519.public(seed)
        r = i % 3
        if r == 0:
            jobs.append((chain_pub, (pub.hex(),), {}))
            meta.append(("PublicKey.from_hex/to_hex/to_bytes", (pub.hex(), pub), seed))
        elif r == 1:
            jobs.append((chain_priv, (seed, msg), {}))
            meta.append(("PrivateKey.from_bytes/to_hex/public_key/sign", (seed.hex(), pub.hex(), ed25519.sign(seed, msg)), seed))
        else:
            jobs.append((chain_priv_hex, (seed.hex(), msg), {}))
            meta.append(("PrivateKey.from_hex/to_bytes/public_key/sign", (seed, pub, ed25519.sign(seed, msg)), seed))
    res = threads.run_calls(lib, jobs, spec["threads"], rec, spec["seed"], prob=0.2, label="key conversions")
    if res is None:
        return
    for (what, want, seed), out in zip(meta, res):
        if out is None:
            continue
        rec.case("thr|%s|%s" % (what, seed.hex()[:16]))
        case = {"kind": "seed", "seed": seed.hex(), "msg": "00"}
        if not out.accepted:
            viol(rec, boundary.mechanism("key-conversion-under-threads", what, "values", out), "conversion of a valid key raised under threads", case)
        elif tuple(out.value) != tuple(want):
            viol(rec, "key-conversion-under-threads/%s/other-key-returned" % what.split("/")[0],
                 "conversion chain %s returned values that are not this key's (another thread's key?)" % what, case)


def run_shard(spec, rec, lib):
    if spec["kind"] == "threads":
        return run_threads(spec, rec, lib)
    {"seeds": run_seeds, "vectors": run_vectors, "malformed": run_malformed, "files": run_files}[spec["kind"]](spec, rec, lib)


def replay(case, rec, lib):
    rng = random.Random(1)
    k = case.get("kind")
    if k == "seed":
        check_seed(bytes.fromhex(case["seed"]), bytes.fromhex(case["msg"]), rec, lib, rng)
    elif k == "malformed":
        arg = caselang.dec(case["arg"], lib)
        o = boundary.call(lib, lib.fn(case["fn"]), arg)
        rec.case("malformed")
        if case["fn"].endswith("is_hex_key"):
            if not o.accepted or o.value is not False:
                viol(rec, "malformed-accepted/common.is_hex_key", "replay", case)
            return
        if o.accepted:
            viol(rec, "malformed-accepted/" + case["fn"], "accepted", case)
        elif o.family not in ("TypeError", "ValueError"):
            viol(rec, boundary.mechanism("undocumented-error", case["fn"], "TypeError|ValueError", o), o.cls, case)
    elif k == "vector":
        run_vectors({}, rec, lib)
    else:
        run_files({"scratch": os.environ.get("TMPDIR", "/tmp"), "count": 2}, rec, lib)
