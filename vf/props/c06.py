"""C06 - declared metadata type is bound to the role by signed content alone."""
import copy
import random

from ..engines import delegation, envelope, hostile, rootchain, threads
from . import c03
from ..gen import entries as gentries, keys as gkeys, metadata as gmd
from ..monitors import boundary
from ..refs import canonjson, models, schema

RULE = (
    "(a) type confusion: validly signed delegating metadata of type X presented for role Y != X where the trusted side delegates Y to "
    "the very keys that signed it, under 14 manipulations of the unsigned signature map (junk of every class, re-ordering, "
    "unauthorized valid signatures, malformed entries, respelled keys): never accepted. (b) strip invariance: every envelope "
    "accepted by verify_signable / verify_delegation / verify_root in the C01/C03/C05 workloads is accepted again after removing "
    "every entry the reference model does not count. (c) every rejected envelope stays rejected under junk augmentation. "
    "distinct = (sub-check, verifier, manipulation, stratum); non-trivial = all."
)
LIMITS = ["manipulations are drawn from 14 classes; an attacker's full freedom over the unsigned map is sampled, not enumerated"]
ASSUMPTIONS = ["reference models; junk never contains a valid signature by an authorized key unless stated"]

MANIPS = ["none", "junk_str", "junk_none", "junk_num", "junk_list", "junk_baddict", "junk_extra_field", "nonhex_key", "surrogate_key",
          "unauth_valid", "reorder", "upper_copy", "empty_dict", "wrong_mode_entry", "many_junk"]


def plan(tier, seed):
    q = tier == "quick"
    specs = []
    for _ in range(4 if q else 12):
        specs.append({"kind": "confusion", "count": 300 if q else 2500})
    for _ in range(3 if q else 8):
        specs.append({"kind": "strip_env", "count": 600 if q else 5000})
    for _ in range(2 if q else 6):
        specs.append({"kind": "strip_deleg", "count": 600 if q else 5000})
    for _ in range(2 if q else 6):
        specs.append({"kind": "strip_root", "count": 400 if q else 3000})
    for T in ([4, 8] if q else [2, 4, 8, 16]):
        specs.append({"kind": "threads", "threads": T, "count": 250 if q else 2000})
    return specs


def manipulate(sigs, how, rng, gpg, data, signed):
    sigs = dict(sigs)
    if how == "none":
        return sigs
    if how == "junk_str":
        sigs["junk"] = "x"
    elif how == "junk_none":
        sigs[gkeys.junk_hexkey(rng)] = None
    elif how == "junk_num":
        sigs["0"] = 0
    elif how == "junk_list":
        sigs[gkeys.junk_hexkey(rng)] = [{"signature": "ab" * 64}]
    elif how == "junk_baddict":
        sigs[gkeys.junk_hexkey(rng)] = {"signature": "zz"}
    elif how == "junk_extra_field":
        sigs[gkeys.junk_hexkey(rng)] = {"signature": "ab" * 64, "extra": 1}
    elif how == "nonhex_key":
        sigs["not-a-key"] = {"signature": "ab" * 64}
    elif how == "surrogate_key":
        sigs["\ud800é"] = {"signature": "ab" * 64, "\udfff": None}
    elif how == "unauth_valid":
        k = gkeys.key(40 + rng.randrange(5))
        sigs[k.hex] = gentries.make("valid", gpg, k, data, rng, signed)
    elif how == "reorder":
        items = list(sigs.items())
        rng.shuffle(items)
        sigs = dict(reversed(items))
    elif how == "upper_copy":
        for k, v in list(sigs.items()):
            if isinstance(k, str) and k.upper() != k:
                sigs[k.upper()] = copy.deepcopy(v)
                break
    elif how == "empty_dict":
        sigs[gkeys.junk_hexkey(rng)] = {}
    elif how == "wrong_mode_entry":
        k = gkeys.key(45)
        sigs[k.hex] = gentries.make("valid", not gpg, k, data, rng, signed)
    elif how == "many_junk":
        for _ in range(20):
            k, v = gentries.junk_pair(rng)
            sigs.setdefault(k, v)
    return sigs


def run_confusion(spec, rec, lib):
    """(a)"""
    rng = random.Random(spec["seed"])
    A = lib.authentication
    for i in range(spec["count"]):
        gpg = rng.random() < 0.4
        U = [gkeys.key(j) for j in range(6)]
        rng.shuffle(U)
        ks = U[: rng.randint(1, 3)]
        t = rng.randint(1, len(ks))
        X, Y = rng.choice([("root", "key_mgr"), ("key_mgr", "root"), ("root", ""), ("key_mgr", ""), ("root", "pkg_mgr"), ("key_mgr", "r\u00f6le"),
                           ("root", "root.json"), ("key_mgr", "Key_mgr"), ("root", " "), ("key_mgr", "0"), ("root", "None")])
        # trusted delegates BOTH X and Y to the same keys; the untrusted metadata declares X, is presented for Y
        dels = {Y: gmd.delegation(ks, t), X: gmd.delegation(ks, t)}
        if rng.random() < 0.3:
            del dels[X]
        trusted = gmd.envelope(gmd.delegating(rng.choice(["root", "key_mgr"]), dels, version=3))
        usigned = gmd.delegating(X, {Y: gmd.delegation(U[3:5], 1)}, version=rng.randint(1, 4))
        # every schema-valid shape of the signed part must be bound to its type: vary the optional and
        # free-form fields (dates in any order, version-only / timestamp-only, extra fields, empty delegations)
        shape = rng.choice(["plain", "no_timestamp", "expired_before_timestamp", "expiration_equals_timestamp", "far_future",
                            "no_version", "extra_fields", "no_delegations", "big_version", "odd_spec_version"])
        if shape == "no_timestamp":
            usigned.pop("timestamp")
        elif shape == "expired_before_timestamp":
            usigned["timestamp"], usigned["expiration"] = "2030-06-01T00:00:00Z", "2021-01-01T00:00:00Z"
        elif shape == "expiration_equals_timestamp":
            usigned["timestamp"] = usigned["expiration"] = "2025-02-28T23:59:59Z"
        elif shape == "far_future":
            usigned["timestamp"], usigned["expiration"] = "9998-12-31T23:59:59Z", "9999-12-31T23:59:59Z"
        elif shape == "no_version" and X != "root":
            usigned.pop("version")
        elif shape == "extra_fields":
            usigned["extra"] = {"anything": [1, None, "x"]}
            usigned[""] = 0
        elif shape == "no_delegations":
            usigned["delegations"] = {}
        elif shape == "big_version":
            usigned["version"] = rng.choice([2**64, 2**1024, 10**400])
        elif shape == "odd_spec_version":
            usigned["metadata_spec_version"] = rng.choice(["", "99.0.0", "not-a-version", "1.0.0", "2.0.0-\u00e9", "1.0.0\ud800", "\U0001f600.0.0", "1",
                                                           # never seen before in this process
                                                           "%d.%d.%d" % (rng.randrange(1, 10**6), rng.randrange(100), rng.randrange(100)),
                                                           "0.6.%d" % rng.randrange(1, 10**9), "0.%d.0" % rng.randrange(7, 10**9)])
        rec.hist("confusion_shape", shape)
        if i % 3 == 0 and isinstance(usigned.get("version", 1), int):
            # history: a LOOK-ALIKE is offered first - same type, version, dates and specification version as the genuine document
            # (a version number this process has not met), but not well-formed delegating metadata (or simply other delegations); it
            # is refused or not, that does not matter.  Whatever was concluded about the look-alike says nothing about the genuine
            # document, which follows in the loop below and must still be refused for role Y
            if "version" in usigned:
                usigned["version"] = rng.randrange(10**6, 10**9)
            look = copy.deepcopy(usigned)
            how_l = ["threshold_0", "upper_key", "no_delegations_member", "delegations_list", "extra_member_in_delegation", "other_delegations"][(i // 3) % 6]
            first = next(iter(look.get("delegations") or {"x": 0}))
            if how_l == "threshold_0" and look.get("delegations"):
                look["delegations"][first]["threshold"] = 0
            elif how_l == "upper_key" and look.get("delegations") and look["delegations"][first]["pubkeys"]:
                look["delegations"][first]["pubkeys"][0] = look["delegations"][first]["pubkeys"][0].upper()
            elif how_l == "no_delegations_member":
                look.pop("delegations", None)
            elif how_l == "delegations_list":
                look["delegations"] = [Y]
            elif how_l == "extra_member_in_delegation" and look.get("delegations"):
                look["delegations"][first]["name"] = first
            else:
                look["delegations"] = {"zzz": gmd.delegation(U[4:5], 1)}
            lenv = gmd.envelope(look)
            if rng.random() < 0.5:
                gmd.sign_env(lenv, ks, gpg, rng)
            for role_l in (Y, X):
                o_l = boundary.call(lib, A.verify_delegation, role_l, copy.deepcopy(lenv), copy.deepcopy(trusted), gpg=gpg)
                if not o_l.accepted and o_l.family not in boundary.DOCUMENTED:
                    rec.violation(boundary.mechanism("undocumented-error", "verify_delegation[look-alike]", "documented-family", o_l), "look-alike offer", {"kind": "lookalike"})
            rec.count("lookalike_offered_before_the_genuine_document")
        untrusted = gmd.envelope(usigned)
        data = canonjson.canon(usigned)
        gmd.sign_env(untrusted, ks, gpg, rng)
        for how in MANIPS:
            u2 = {"signatures": manipulate(untrusted["signatures"], how, rng, gpg, data, usigned), "signed": copy.deepcopy(usigned)}
            case = {"kind": "deleg", "role": Y, "untrusted": u2, "trusted": trusted, "gpg": gpg, "stratum": "confusion:" + how,
                    "ukind": "delegating"}
            if how == "none" and i % 2 == 0:
                # first contact of this process with this document happens while standard output fails
                c0 = dict(case, stdout=hostile.MODES[i // 2 % len(hostile.MODES)], stratum=case["stratum"] + "+stdout-fails-first")
                m0, f0, o0, _ = delegation.evaluate(c0, lib)
                rec.count("failing_stdout_runs")
                rec.count("failing_stdout_write_attempts", c0.get("_stdout_write_attempts", 0))
                if o0.accepted:
                    rec.violation("type-confusion/verify_delegation/accepted-as-other-role/stdout-fails/manip=" + how,
                                  "metadata declaring type %r accepted as role %r when standard output fails (%s)" % (X, Y, c0["stdout"]), c0)
            model, failed, out, _m = delegation.evaluate(case, lib)
            rec.case("confusion|%s|%s|%s|%d|%d|%s|%s" % (how, gpg, X, len(ks), t, X in dels, "timestamp" in usigned))
            rec.hist("manipulation", how)
            rec.hist("confusion_outcome", "accept" if out.accepted else out.cls)
            if model.v != models.REJECT:
                rec.inconclusive_because("harness: type-confusion case not rejected by the model (%s)" % model.why)
                continue
            if out.accepted:
                rec.violation("type-confusion/verify_delegation/accepted-as-other-role/manip=" + how,
                              "metadata declaring type %r accepted as role %r after manipulation %r of the unsigned map" % (X, Y, how),
                              case)
            elif out.family != "MetadataVerificationError":
                rec.count("confusion_rejected_with_other_family:" + str(out.family))
            if how in ("none", MANIPS[(i + 1) % len(MANIPS)]):
                # the same offer in a process whose standard output fails (closed, full, broken pipe, binary, cannot
                # encode): a diagnostic print that raises inside the checker must not switch the type test off
                c3 = dict(case, stdout=hostile.MODES[(i + len(how)) % len(hostile.MODES)], stratum=case["stratum"] + "+stdout-fails")
                m3, f3, o3, _ = delegation.evaluate(c3, lib)
                rec.count("failing_stdout_runs")
                rec.count("failing_stdout_write_attempts", c3.get("_stdout_write_attempts", 0))
                if o3.accepted:
                    rec.violation("type-confusion/verify_delegation/accepted-as-other-role/stdout-fails/manip=" + how,
                                  "metadata declaring type %r accepted as role %r when standard output fails (%s)" % (X, Y, c3["stdout"]), c3)
            # control: presented for its own type X it must be accepted when X is delegated (so the signatures are good)
            if how == "none" and X in dels:
                c2 = dict(case, role=X)
                m2, f2, o2, _ = delegation.evaluate(c2, lib)
                rec.count("confusion_controls")
                if m2.v == models.ACCEPT and not o2.accepted:
                    rec.violation(boundary.mechanism("false-reject", "verify_delegation[control]", "accept", o2),
                                  "control: same metadata for its own role rejected", c2)
        if i < 1:
            rec.sample({"type_confusion": {"declared": X, "presented_for": Y, "signers": [k.hex[:8] for k in ks], "gpg": gpg,
                                           "manipulations": MANIPS}})


def augment(signable, rng, gpg):
    e = {"signatures": dict(signable["signatures"]), "signed": signable["signed"]}
    for _ in range(rng.randint(1, 5)):
        k, v = gentries.junk_pair(rng)
        e["signatures"].setdefault(k, v)
    if rng.random() < 0.5:
        e["signatures"].setdefault("junk", "x")
    items = list(e["signatures"].items())
    rng.shuffle(items)
    e["signatures"] = dict(items)
    return e


def run_strip_env(spec, rec, lib):
    rng = random.Random(spec["seed"])
    A = lib.authentication
    for i in range(spec["count"]):
        case = envelope.gen_case(rng)
        signable, auth, t, gpg = envelope.materialise(case, lib)
        model = models.threshold_verdict(signable, auth, t, gpg)
        out = boundary.call(lib, A.verify_signable, signable, auth, t, gpg=gpg)
        rec.case("strip_env|%s|%s" % (envelope.distinct_key(case), out.accepted))
        if model.v == models.GREY:
            continue
        if out.accepted:
            stripped = models.strip_to_counting(signable, model)
            o2 = boundary.call(lib, A.verify_signable, stripped, auth, t, gpg=gpg)
            rec.count("strip_checks:verify_signable")
            if not o2.accepted:
                rec.violation("strip-invariance/verify_signable/accepted-only-with-non-counting-entries",
                              "accepted, but rejected (%s) once the entries the model does not count are removed" % o2.brief(),
                              dict(case, sub="strip"))
        else:
            for _ in range(3):
                aug = augment(signable, rng, gpg)
                o3 = boundary.call(lib, A.verify_signable, aug, auth, t, gpg=gpg)
                rec.count("junk_augment_checks:verify_signable")
                if o3.accepted:
                    rec.violation("junk-augmentation/verify_signable/rejection-turned-into-acceptance",
                                  "rejected envelope accepted after adding junk entries", dict(case, sub="augment", aug=aug["signatures"]))
                    break
    rec.sample({"strip_env": "C01 generator; accepted -> strip to counting entries; rejected -> 3 junk-augmented variants"})


def run_strip_deleg(spec, rec, lib):
    rng = random.Random(spec["seed"])
    A = lib.authentication
    for i in range(spec["count"]):
        case = delegation.gen_case(rng)
        model, failed, out, _m = delegation.evaluate(case, lib)
        rec.case("strip_deleg|%s|%s" % (delegation.dkey(case, failed), out.accepted))
        if model.v == models.GREY:
            continue
        u = case["untrusted"]
        if out.accepted:
            keep = set(model.counted)
            c2 = dict(case, untrusted={"signatures": {k: v for k, v in u["signatures"].items() if k in keep}, "signed": u["signed"]})
            m2, f2, o2, _ = delegation.evaluate(c2, lib)
            rec.count("strip_checks:verify_delegation")
            if not o2.accepted:
                rec.violation("strip-invariance/verify_delegation/accepted-only-with-non-counting-entries",
                              "accepted, but %s once non-counting entries are removed" % o2.brief(), dict(c2, sub="strip"))
        else:
            for _ in range(3):
                aug = augment(u, rng, case["gpg"])
                c3 = dict(case, untrusted=aug)
                m3, f3, o3, _ = delegation.evaluate(c3, lib)
                rec.count("junk_augment_checks:verify_delegation")
                if o3.accepted:
                    rec.violation("junk-augmentation/verify_delegation/rejection-turned-into-acceptance/failed=" + ",".join(sorted(failed)),
                                  "rejected (%s) envelope accepted after adding junk entries" % out.brief(), dict(c3, sub="augment"))
                    break


def run_strip_root(spec, rec, lib):
    rng = random.Random(spec["seed"])
    for i in range(spec["count"]):
        case = rootchain.gen_pair(rng, rng.choice(["accept", "accept", "old_rule", "new_rule", "version", "type"]))
        model, failed, out, _m = rootchain.evaluate(case, lib)
        rec.case("strip_root|%s|%s" % (c03.dkey(case, failed), out.accepted))
        if model.v == models.GREY:
            continue
        new, trusted = case["new"], case["trusted"]
        if out.accepted:
            tr = trusted["signed"]["delegations"]["root"]
            nr = new["signed"]["delegations"]["root"]
            v1 = models.threshold_verdict(new, tr["pubkeys"], tr["threshold"], True)
            v2 = models.threshold_verdict(new, nr["pubkeys"], nr["threshold"], True)
            keep = set(v1.counted) | set(v2.counted)
            c2 = dict(case, new={"signatures": {k: v for k, v in new["signatures"].items() if k in keep}, "signed": new["signed"]})
            m2, f2, o2, _ = rootchain.evaluate(c2, lib)
            rec.count("strip_checks:verify_root")
            if not o2.accepted:
                rec.violation("strip-invariance/verify_root/accepted-only-with-non-counting-entries",
                              "accepted, but %s once non-counting entries are removed" % o2.brief(), dict(c2, sub="strip"))
        else:
            for _ in range(2):
                aug = augment(new, rng, True)
                c3 = dict(case, new=aug)
                m3, f3, o3, _ = rootchain.evaluate(c3, lib)
                rec.count("junk_augment_checks:verify_root")
                if o3.accepted:
                    rec.violation("junk-augmentation/verify_root/rejection-turned-into-acceptance/failed=" + ",".join(sorted(failed)),
                                  "rejected root offer accepted after adding junk entries", dict(c3, sub="augment"))
                    break


def run_threads(spec, rec, lib):
    """an acceptance must be explained by the envelope's own valid authorized signatures, also when other
    envelopes are being verified at the same time"""
    rng = random.Random(spec["seed"])
    for case, model, out in threads.run(lib, rng, spec["count"], spec["threads"], rec, spec["seed"]):
        rec.case("thr|%d|%s" % (spec["threads"], envelope.distinct_key(case)))
        if out.accepted and model.v == models.REJECT:
            rec.violation("strip-invariance/verify_signable/accepted-without-own-valid-signatures-under-threads",
                          "accepted under %d threads although the envelope itself carries only %d counting signatures for threshold %r"
                          % (spec["threads"], len(model.counted), case["threshold"]), case)


def run_shard(spec, rec, lib):
    if spec["kind"] == "threads":
        return run_threads(spec, rec, lib)
    {"confusion": run_confusion, "strip_env": run_strip_env, "strip_deleg": run_strip_deleg, "strip_root": run_strip_root}[
        spec["kind"]](spec, rec, lib)


def finish(merged, tier, seed):
    for need in ("strip_checks:verify_signable", "strip_checks:verify_delegation", "strip_checks:verify_root", "confusion_controls"):
        if merged.counters.get(need, 0) == 0:
            merged.inconclusive_because("monitor %s observed nothing" % need)


def replay(case, rec, lib):
    k = case.get("kind")
    if k == "deleg":
        model, failed, out, _ = delegation.evaluate(case, lib)
        rec.case("replay")
        if model.v == models.REJECT and out.accepted:
            rec.violation("type-confusion-or-augmentation/verify_delegation/accepted", "accepted; model: %s" % model.why, case)
        if model.v == models.ACCEPT and not out.accepted:
            rec.violation("strip-invariance/verify_delegation/rejected", out.brief(), case)
    elif k == "env":
        signable, auth, t, gpg = envelope.materialise(case, lib)
        if case.get("sub") == "augment":
            signable = {"signatures": case["aug"], "signed": signable["signed"]}
        model = models.threshold_verdict(signable, auth, t, gpg)
        if case.get("sub") == "strip":
            signable = models.strip_to_counting(signable, model)
        out = boundary.call(lib, lib.authentication.verify_signable, signable, auth, t, gpg=gpg)
        rec.case("replay")
        if (model.v == models.REJECT) == out.accepted and model.v != models.GREY:
            rec.violation("strip-or-augmentation/verify_signable/verdict-differs-from-model", out.brief(), case)
    elif k == "rootpair":
        model, failed, out, _ = rootchain.evaluate(case, lib)
        rec.case("replay")
        if (model.v == models.REJECT) == out.accepted and model.v != models.GREY:
            rec.violation("strip-or-augmentation/verify_root/verdict-differs-from-model", out.brief(), case)
