"""C13 - failures are fail-closed and use the documented error families."""
import copy
import random

from ..engines import delegation, envelope, hostile, rootchain
from ..gen import caselang, jsonvals, keys as gkeys, metadata as gmd, mutate, palette
from ..monitors import boundary, sysmon
from ..refs import canonjson, ed25519, models, openpgp

RULE = (
    "every public validator (checkformat_*, is_*) and verifier called with (i) every palette value (JSON and Python-only values, "
    "Infinity/NaN, huge integers, wrong containers, deep nesting <= 60) in every argument position, (ii) single-path mutations "
    "(replace by palette value, delete, duplicate, extra field, renamed key) of valid argument tuples, (iii) double mutations in the "
    "thorough tier; oracle: outcome is a normal return or an error from the documented families (CCT_Error hierarchy, TypeError, "
    "ValueError; plus InvalidSignature for verify_signature / verify_gpg_signature), predicates return bool, and a per-call budget of "
    "2e6 executed library lines is respected. Error-class mapping asserted on single-cause cases from the C01/C03/C05 models. "
    "distinct = (function, structural fingerprint of the argument tuple); non-trivial = all."
)
LIMITS = ["objects with hostile dunder methods are out of scope", "nesting depth bounded at 60 (well below the recursion limit)",
          "termination is judged by a logical step budget; time spent inside C code is covered only by the wall-clock watchdog"]
ASSUMPTIONS = ["the documented families are those of common.py:82-109 and the verifier docstrings"]

K0, K1 = gkeys.key(0), gkeys.key(1)
_PAY = {"a": 1}
_DATA = canonjson.canon(_PAY)
_HDR = bytes.fromhex("04001608001d162104" + "11" * 20 + "05025f0bf546")
_RAWSIG = ed25519.sign(K0.seed, _DATA).hex()
_GPGE = openpgp.make_entry(K0.seed, _DATA, _HDR)
_GPGE_SA = dict(_GPGE, see_also="ab" * 20)
_DELEG = {"pubkeys": [K0.hex, K1.hex], "threshold": 1}
_ROOT_SIGNED = gmd.root_md(1, [K0], 1, [K1], 1)
_ROOT2_SIGNED = gmd.root_md(2, [K0], 1, [K1], 1)
_ROOT = {"signatures": {K0.hex: openpgp.make_entry(K0.seed, canonjson.canon(_ROOT_SIGNED), _HDR)}, "signed": _ROOT_SIGNED}
_ROOT2 = {"signatures": {K0.hex: openpgp.make_entry(K0.seed, canonjson.canon(_ROOT2_SIGNED), _HDR, see_also="cd" * 20)}, "signed": _ROOT2_SIGNED}
_ENV_GPG_SA = {"signatures": {K0.hex: openpgp.make_entry(K0.seed, _DATA, _HDR, see_also="ab" * 20), K1.hex: {"signature": _RAWSIG}}, "signed": _PAY}
_KM_SIGNED = gmd.delegating("key_mgr", {"pkg_mgr": gmd.delegation([K0], 1)})
_KM = {"signatures": {K1.hex: {"signature": ed25519.sign(K1.seed, canonjson.canon(_KM_SIGNED)).hex()}}, "signed": _KM_SIGNED}
_ENV = {"signatures": {K0.hex: {"signature": _RAWSIG}}, "signed": _PAY}

ONE_ARG = [
    ("common.checkformat_string", ["abc"]),
    ("common.is_hex_string", ["ab"]),
    ("common.checkformat_hex_string", ["ab"]),
    ("common.is_hex_signature", [_RAWSIG]),
    ("common.is_hex_key", [K0.hex]),
    ("common.checkformat_hex_key", [K0.hex]),
    ("common.is_signable", [_ENV]),
    ("common.checkformat_signable", [_ENV]),
    ("common.checkformat_byteslike", [{"$py": "bytes", "hex": "00"}]),
    ("common.checkformat_natural_int", [3]),
    ("common.checkformat_expiration_distance", [{"$py": "timedelta"}]),
    ("common.checkformat_list_of_hex_keys", [[K0.hex, K1.hex]]),
    ("common.checkformat_utc_isoformat", ["2030-01-01T00:00:00Z"]),
    ("common.is_gpg_fingerprint", ["ab" * 20]),
    ("common.checkformat_gpg_fingerprint", ["ab" * 20]),
    ("common.is_gpg_signature", [_GPGE]),
    ("common.checkformat_gpg_signature", [_GPGE]),
    ("common.is_signature", [{"signature": _RAWSIG}]),
    ("common.checkformat_signature", [{"signature": _RAWSIG}]),
    ("common.checkformat_any_signature", [_GPGE]),
    ("common.checkformat_any_signature", [_GPGE_SA]),
    ("common.checkformat_gpg_signature", [_GPGE_SA]),
    ("common.is_signature", [_GPGE_SA]),
    ("common.is_gpg_signature", [_GPGE_SA]),
    ("common.checkformat_delegation", [_DELEG]),
    ("common.checkformat_delegations", [{"root": _DELEG, "key_mgr": _DELEG}]),
    ("common.checkformat_delegating_metadata", [_ROOT]),
    ("common.checkformat_key", [{"$py": "key", "which": "public", "seed": "00" * 32}]),
]
VERIFIERS = [
    ("authentication.verify_signature", [_RAWSIG, {"$py": "key", "which": "public", "seed": K0.seed.hex()},
                                         {"$py": "bytes", "hex": _DATA.hex()}]),
    ("authentication.verify_gpg_signature", [_GPGE, K0.hex, {"$py": "bytes", "hex": _DATA.hex()}]),
    ("authentication.verify_signable", [_ENV, [K0.hex], 1, False]),
    ("authentication.verify_signable", [_ROOT, [K0.hex], 1, True]),
    ("authentication.verify_signable", [_ENV_GPG_SA, [K0.hex, K1.hex], 1, True]),
    ("authentication.verify_signable", [_ENV_GPG_SA, [K0.hex, K1.hex], 1, False]),
    ("authentication.verify_gpg_signature", [_GPGE_SA, K0.hex, {"$py": "bytes", "hex": _DATA.hex()}]),
    ("authentication.verify_root", [_ROOT, _ROOT2]),
    ("authentication.verify_delegation", ["key_mgr", _KM, _ROOT, False]),
    ("authentication.verify_delegation", ["root", _ROOT2, _ROOT, True]),
    ("authentication.verify_delegation", ["pkg_mgr", _ENV, {"signatures": {}, "signed": _KM_SIGNED}, False]),
]
PRIMITIVES = {"authentication.verify_signature", "authentication.verify_gpg_signature"}
ALLFN = ONE_ARG + VERIFIERS


def plan(tier, seed):
    q = tier == "quick"
    specs = [{"kind": "positions", "part": i, "parts": 4} for i in range(4)]
    for _ in range(8 if q else 20):
        specs.append({"kind": "mutations", "count": 12000 if q else 150000, "double": not q, "budget": False})
    specs.append({"kind": "mutations", "count": 2500 if q else 30000, "double": True, "budget": True})
    specs.append({"kind": "hostile_json", "count": 1500 if q else 30000})
    for _ in range(2 if q else 6):
        specs.append({"kind": "classes", "count": 500 if q else 5000})
    specs.append({"kind": "grey_classes", "count": 150 if q else 3000})
    specs.append({"kind": "mappings"})
    specs.append({"kind": "each_state", "reps": 3 if q else 40})
    return specs


def judge(dotted, args_case, rec, lib, label, budget=None):
    if not lib.has(dotted):
        rec.count("missing:" + dotted)
        return None
    try:
        args = caselang.dec(args_case, lib)
    except Exception:
        return None
    fn = lib.fn(dotted)
    if budget is not None:
        budget.reset()
    out = boundary.call(lib, fn, *args)
    name = dotted.split(".", 1)[1]
    rec.case("%s|%s" % (dotted, boundary.fingerprint(args)))
    rec.hist("fn", name)
    rec.hist("outcome", "return" if out.accepted else (out.family if not (out.family or "").startswith("OTHER") else out.cls))
    case = {"kind": "call", "fn": dotted, "args": args_case, "label": label}
    allowed = set(boundary.DOCUMENTED)
    if dotted in PRIMITIVES:
        allowed.add("InvalidSignature")
    if not out.accepted:
        if out.cls == "StepBudgetExceeded":
            rec.violation("termination/%s/step-budget-exceeded" % dotted, "call executed more than the step budget of library lines", case)
        elif out.family not in allowed:
            rec.violation(boundary.mechanism("undocumented-error", dotted, "documented-family", out),
                          "%s raised %s: %s (%s)" % (name, out.cls, (out.msg or "")[:140], label), case)
    elif name.startswith("is_") and type(out.value) is not bool:
        rec.violation("predicate-nonbool/" + dotted, "%s returned %r" % (name, out.value), case)
    elif dotted == "authentication.verify_signable" and len(args) == 4:
        # fail-closed: a normal return is an acceptance; with arguments the reference model rejects it is fail-open
        try:
            m = models.threshold_verdict(args[0], args[1], args[2], args[3])
        except Exception:
            m = None
        if m is not None and m.v == models.REJECT:
            rec.violation("fail-open/authentication.verify_signable/observed=return/" + ("malformed-argument" if m.error == "arg" else "below-threshold"),
                          "verify_signable returned normally although: %s (%s)" % (m.why, label), case)
    return out


def run_positions(spec, rec, lib):
    """(i) every palette value in every argument position, other positions valid"""
    n = 0
    for idx, (dotted, base) in enumerate(ALLFN):
        if idx % spec["parts"] != spec["part"]:
            continue
        judge(dotted, base, rec, lib, "valid-base")
        for pos in range(len(base)):
            for v in palette.ALL:
                args = list(copy.deepcopy(base))
                args[pos] = v
                judge(dotted, args, rec, lib, "position %d" % pos)
                n += 1
        # all positions at once
        for v in palette.ALL[::3]:
            judge(dotted, [v] * len(base), rec, lib, "all positions")
    rec.count("position_sweeps", n)
    rec.sample({"positions": "each of %d palette values in each argument position" % len(palette.ALL),
                "functions": [d for d, _b in ALLFN[spec["part"]::spec["parts"]]]})


def run_mutations(spec, rec, lib):
    rng = random.Random(spec["seed"])
    targets = [(d, b) for d, b in ALLFN if any(isinstance(x, (dict, list)) for x in b)] + VERIFIERS * 2
    pss = [mutate.paths(b) for _d, b in targets]
    budget = None
    ctx = None
    if spec.get("budget"):
        budget = sysmon.StepBudget(lib.pkg_dir)
        ctx = budget.__enter__()
    try:
        for i in range(spec["count"]):
            j = rng.randrange(len(targets))
            dotted, base = targets[j]
            mut = mutate.random_mutation(base, rng, palette.ALL, [p for p in pss[j] if p])
            try:
                args = mutate.apply(base, mut)
                label = mut[0]
                if spec.get("double") and rng.random() < 0.5:
                    mut2 = mutate.random_mutation(args, rng, palette.ALL, [p for p in mutate.paths(args) if p])
                    args = mutate.apply(args, mut2)
                    label += "+" + mut2[0]
            except (KeyError, IndexError, TypeError):
                continue
            if not isinstance(args, list):
                continue
            judge(dotted, args, rec, lib, label, budget)
            if i < 2:
                rec.sample({"fn": dotted, "mutation": mut})
    finally:
        if ctx is not None:
            budget.reset()
            rec.count("budget_monitored_calls", spec["count"])
            rec.count("budget_max_steps_seen", 0)
            rec.extra["max_steps"] = budget.max_steps
            rec.extra["total_steps"] = budget.total
            budget.__exit__(None, None, None)


def run_mappings(spec, rec, lib):
    """protocol corners at every mapping position of the verifiers' arguments: the same content held in a mapping with a __missing__
    hook (collections.defaultdict with several defaults), and role names absent from it - whatever happens stays in the documented
    families (the verdict itself is a grey zone for dict subclasses)"""
    defaults = [{}, 0, None, "", {"pubkeys": [palette.HK], "threshold": 1}, {"signature": palette.SIG}, palette.SIG]
    n = 0
    for dotted, base in VERIFIERS:
        for pth in mutate.paths(base):
            if not pth:
                continue
            tgt = jsonvals.get_path(base, pth)
            if type(tgt) is not dict or "$py" in tgt:
                continue
            for dflt in defaults:
                for keep in (True, False):
                    args = jsonvals.set_path(base, pth, {"$py": "defaultdict", "default": dflt, "v": tgt if keep else {}})
                    variants = [args]
                    if dotted.endswith("verify_delegation") and isinstance(args, list) and args and isinstance(args[0], str):
                        variants.append([args[0] + "-not-delegated"] + list(args[1:]))  # a role the mapping does not hold
                    for a in variants:
                        judge(dotted, a, rec, lib, "defaultdict@" + "/".join(str(x) for x in pth))
                        n += 1
    rec.count("mapping_protocol_cases", n)


def run_hostile_json(spec, rec, lib):
    """arbitrary parser-returnable JSON values as every argument"""
    rng = random.Random(spec["seed"])
    for i in range(spec["count"]):
        dotted, base = rng.choice(ALLFN)
        args = list(copy.deepcopy(base))
        pos = rng.randrange(len(args))
        v = jsonvals.rand_value(rng, 0, 4, 4)
        args[pos] = v
        judge(dotted, args, rec, lib, "hostile-json")
        # also as the payload / as the signature map of an envelope
        if dotted.startswith("authentication.verify_signable"):
            e = copy.deepcopy(_ENV)
            if rng.random() < 0.5:
                e["signed"] = v
            else:
                e["signatures"] = v if isinstance(v, dict) else {"k": v}
            judge(dotted, [e, [K0.hex], 1, False], rec, lib, "hostile-envelope")


def run_each_state(spec, rec, lib):
    """every kind of non-counting entry the generators know, once per mode and several times over, as the ONE entry that would
    complete the threshold: the call raises a signature error - it neither returns nor raises anything else"""
    from ..gen import entries as gentries

    rng = random.Random(spec["seed"])
    n = 0
    for rep in range(spec.get("reps", 3)):
        for gpg in (False, True):
            for st in gentries.invalid_states(gpg):
                case = envelope.gen_case(rng, gpg=gpg, stratum="sole:shape", force_state=st)
                if case.get("stratum") != "sole:shape":
                    case = envelope.gen_case(rng, gpg=gpg, stratum="sole:shape", force_state=st)
                model, out, _m, _s = envelope.evaluate(case, lib)
                n += 1
                rec.case("each_state|%s|%s" % (gpg, st))
                rec.hist("each_state_model", model.v)
                if model.v != models.REJECT:
                    continue
                if out.accepted:
                    rec.violation("fail-open/authentication.verify_signable/expected=SignatureError/observed=return/entry-state=" + st,
                                  "an envelope one signer short, whose remaining entry is %r, was accepted" % st, case)
                elif out.family not in boundary.DOCUMENTED:
                    rec.violation(boundary.mechanism("undocumented-error", "authentication.verify_signable", "documented-family", out),
                                  "entry state %s: raised %s" % (st, out.cls), case)
                elif model.error == "SignatureError" and out.family != "SignatureError":
                    rec.violation(boundary.mechanism("error-class", "authentication.verify_signable", "SignatureError", out),
                                  "entry state %s: too few valid signatures reported as %s" % (st, out.cls), case)
    rec.count("each_invalid_entry_state_runs", n)


def run_classes(spec, rec, lib):
    """single-cause rejections carry the documented class"""
    rng = random.Random(spec["seed"])
    # a document of the wrong type for the role it is presented for, declaring a specification version this process has never met,
    # offered while standard output fails, as the first thing that happens to it: the rejection stays a rejection
    for j in range(max(8, spec["count"] // 12)):
        case = delegation.gen_case(rng, stratum="type_confusion", spec_version_prob=1.0)
        tw = dict(case, stdout=hostile.MODES[j % len(hostile.MODES)])
        m3, _f3, o3, _mm = delegation.evaluate(tw, lib)
        rec.case("class|type-confusion-unseen-spec-version|%s" % tw["stdout"])
        rec.count("failing_stdout_runs")
        if o3.accepted and m3.v == models.REJECT:
            rec.violation("fail-open/authentication.verify_delegation/stdout-fails/observed=return",
                          "rejection (%s) of a wrongly typed document with a never-seen specification version turned into a normal return when standard output fails (%s)"
                          % (m3.why, tw["stdout"]), tw)
    for i in range(spec["count"]):
        r = i % 3
        eng, fn = [(envelope, "verify_signable"), (rootchain, "verify_root"), (delegation, "verify_delegation")][r]
        case = eng.gen_case(rng) if r != 1 else eng.gen_pair(rng)
        if i % 4 == 2:
            # fail-closed also when the diagnostics cannot be printed (standard output closed / full / broken pipe ...),
            # here as the FIRST contact of the process with this document: only the direction "a rejection stays a
            # rejection" is judged; the error is then the print's own
            tw = dict(case, stdout=hostile.MODES[(i // 4) % len(hostile.MODES)])
            res = eng.evaluate(tw, lib)
            m3, o3 = res[0], (res[1] if r == 0 else res[2])
            rec.count("failing_stdout_runs")
            rec.count("failing_stdout_write_attempts", tw.get("_stdout_write_attempts", 0))
            if o3.accepted and m3.v == models.REJECT:
                rec.violation("fail-open/authentication.%s/stdout-fails/observed=return" % fn,
                              "rejection (%s) turned into a normal return when standard output fails (%s)" % (m3.why, tw["stdout"]), tw)
        if r == 0:
            model, out, _m, _s = envelope.evaluate(case, lib)
            err = model.error if model.v == models.REJECT else None
        elif r == 1:
            model, failed, out, _m = rootchain.evaluate(case, lib)
            err = model.error if model.v == models.REJECT else None
        else:
            model, failed, out, _m = delegation.evaluate(case, lib)
            err = model.error if model.v == models.REJECT else None
            if err == "SignatureError" and failed != ["threshold"]:
                err = None
        rec.case("class|%s|%s|%s" % (fn, err, case.get("stratum") or case.get("row")))
        rec.hist("class_expected", "%s:%s" % (fn, err))
        if not out.accepted and out.family not in boundary.DOCUMENTED:
            rec.violation(boundary.mechanism("undocumented-error", "authentication." + fn, "documented-family", out),
                          "%s raised %s" % (fn, out.cls), case)
            continue
        if err in ("SignatureError", "UnknownRoleError", "MetadataVerificationError"):
            rec.count("class_mapping_checks")
            if out.accepted:
                # "failures are fail-closed": a single-cause rejection must not turn into a normal return
                rec.violation("fail-open/authentication.%s/expected=%s/observed=return" % (fn, err),
                              "single-cause rejection (%s) was not raised at all: the call returned normally" % model.why, case)
            elif out.family != err:
                rec.violation(boundary.mechanism("error-class", "authentication." + fn, err, out),
                              "single-cause rejection (%s) reported as %s instead of %s" % (model.why, out.cls, err), case)
        elif err == "arg":
            rec.count("arg_error_checks")
            if out.accepted:
                rec.violation("fail-open/authentication.%s/malformed-argument/observed=return" % fn,
                              "malformed argument (%s) did not make the call fail: it returned normally" % model.why, case)
            elif out.family not in ("TypeError", "ValueError"):
                rec.violation(boundary.mechanism("error-class", "authentication." + fn, "TypeError|ValueError", out),
                              "malformed argument reported as %s" % out.cls, case)


def run_grey_classes(spec, rec, lib):
    """class mapping where the reference schema is silent (integral non-int numerics as version/threshold): the
    statement still fixes the class once the library's OWN checker accepts both documents, so the precondition is
    observed at run time instead of modelled"""
    rng = random.Random(spec["seed"])
    C, A = lib.common, lib.authentication
    U = [gkeys.key(i) for i in range(6)]
    for i in range(spec["count"]):
        K = rng.sample(U, rng.randint(1, 2))
        t = 1
        v = rng.choice([1, 2, 7, 100])
        flav = lambda x: rng.choice([float(x), float(x), x, True if x == 1 else float(x)])  # noqa: E731
        v2 = rng.choice([v, v + 2, v - 1 if v > 1 else v + 3, v + 1, v + 1])
        tv, nv = flav(v), flav(v2)
        if type(tv) is int and type(nv) is int:
            tv = float(tv)
        trusted = rootchain.signed_root(tv, K, t, K, rng)
        new = rootchain.signed_root(nv, K, t, K, rng)
        ok_t = boundary.call(lib, C.checkformat_delegating_metadata, copy.deepcopy(trusted)).accepted
        ok_n = boundary.call(lib, C.checkformat_delegating_metadata, copy.deepcopy(new)).accepted
        out = boundary.call(lib, A.verify_root, copy.deepcopy(trusted), copy.deepcopy(new))
        rec.case("greyclass|%r|%r" % (tv, nv))
        case = {"kind": "rootpair", "trusted": trusted, "new": new, "row": "grey-version"}
        if not out.accepted and out.family not in boundary.DOCUMENTED:
            rec.violation(boundary.mechanism("undocumented-error", "authentication.verify_root", "documented-family", out),
                          "verify_root raised %s on integral non-int versions" % out.cls, case)
            continue
        if not (ok_t and ok_n):
            rec.count("grey_precondition_not_met")
            continue
        rec.count("grey_class_mapping_checks")
        mismatch = (v2 != v + 1)
        if mismatch and not out.accepted and out.family != "MetadataVerificationError":
            rec.violation(boundary.mechanism("error-class", "authentication.verify_root", "MetadataVerificationError[grey-version]", out),
                          "both documents pass the library's own checker, versions %r -> %r do not chain, all signatures valid: "
                          "reported as %s instead of MetadataVerificationError" % (tv, nv, out.cls), case)
        if mismatch and out.accepted:
            rec.violation("unsound-accept/verify_root/grey-version-mismatch", "versions %r -> %r accepted" % (tv, nv), case)
        if not mismatch and not out.accepted:
            rec.count("grey_chaining_versions_rejected")  # tallied, not judged (statements silent on non-int numerics)
    rec.sample({"grey_class_mapping": "float / bool versions accepted by the library's own checker; mismatch must be MetadataVerificationError"})


def run_shard(spec, rec, lib):
    if spec.get("kind") == "each_state":
        return run_each_state(spec, rec, lib)
    if spec.get("kind") == "mappings":
        return run_mappings(spec, rec, lib)
    if spec["kind"] == "grey_classes":
        return run_grey_classes(spec, rec, lib)
    {"positions": run_positions, "mutations": run_mutations, "hostile_json": run_hostile_json, "classes": run_classes}[
        spec["kind"]](spec, rec, lib)


def finish(merged, tier, seed):
    miss = [k for k in merged.counters if k.startswith("missing:")]
    if miss:
        merged.inconclusive_because("public functions not found: " + ",".join(sorted(miss)))
    ms = [e.get("max_steps") for _s, e in merged.extras if "max_steps" in e]
    if ms:
        merged.counters["budget_max_steps_seen"] = max(ms)
    else:
        merged.inconclusive_because("step-budget monitor reported nothing")
    if merged.counters.get("class_mapping_checks", 0) == 0:
        merged.inconclusive_because("class-mapping monitor observed nothing")


def replay(case, rec, lib):
    if case.get("kind") == "call":
        judge(case["fn"], case["args"], rec, lib, case.get("label", "replay"))
    else:
        if case.get("kind") == "env":
            model, out, _m, _s = envelope.evaluate(case, lib)
        elif case.get("kind") == "rootpair":
            model, failed, out, _m = rootchain.evaluate(case, lib)
        else:
            model, failed, out, _m = delegation.evaluate(case, lib)
        rec.case("replay")
        print("model:", model, "observed:", out.brief())
        if not out.accepted and (out.family not in boundary.DOCUMENTED or (model.error not in (None, "arg") and out.family != model.error)):
            rec.violation("error-class/replay", "%s vs expected %s" % (out.brief(), model.error), case)
