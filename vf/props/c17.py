"""C17 - CLI exit status and output reflect the library's verdict."""
import copy
import json
import os
import random
import re
import subprocess
import sys

from ..engines import rootchain
from ..gen import jsonvals, keys as gkeys, metadata as gmd
from ..monitors import boundary, gnupg
from ..refs import canonjson, ed25519, openpgp, schema
from . import c11

RULE = (
    "each way to start the tool (installed console script, script generated from the working tree's [project.scripts], python -m "
    "conda_content_trust, python -m conda_content_trust.cli) run as a real process on generated file pairs: root-chain pairs accepted / "
    "rejected for each reason of C03, key_mgr and other delegations (raw signatures), wrong trusted file, junk-laden envelopes, non-JSON, "
    "JSON non-objects, missing signed/type, missing files. Oracle = the library's in-process verdict for the stated dispatch; exit 0 <=> "
    "accept. Output judged only for contradiction. Signing subcommands: exit 0 only if the file was actually signed (expected bytes / "
    "reference-valid GnuPG entry), else non-zero and file unchanged. distinct = (entry point, pair class | signing scenario)."
)
RULE_ADDENDUM = (
    'Additional: exit-status sweep over rejection sizes (threshold 1..559, 0 or 1 good signature; a status is 8 bits wide), sign-artifacts scenarios with re-signing after a hot-fix, planted own-key entries and key values with leading / trailing zeros, closed stdout pipe.'
)
RULE = RULE + " " + RULE_ADDENDUM
LIMITS = ["the conda plugin entry point is not exercised (conda is not installed in /venv)", "about 0.25 s per process bounds the number of pairs"]
ASSUMPTIONS = ["in-process verdict of the same tree is the reference for the CLI (the library's own soundness is C01-C06's business)"]

PY = "/venv/bin/python"
VERIF = os.path.dirname(os.path.dirname(os.path.dirname(os.path.abspath(__file__))))


def plan(tier, seed):
    q = tier == "quick"
    specs = [{"kind": "verify", "count": 12 if q else 100} for _ in range(6 if q else 14)]
    specs.append({"kind": "sign_artifacts", "count": 1 if q else 6})
    specs.append({"kind": "status_sweep", "upto": 560 if q else 2100})
    specs.append({"kind": "gpg_sign", "shim": True, "count": 1 if q else 5})
    return specs


def entry_points(repo, scratch):
    eps = []
    inst = "/venv/bin/conda-content-trust"
    if os.path.exists(inst):
        eps.append(("installed-script", [PY, inst]))
    # generated from the working tree's pyproject.toml
    try:
        txt = open(os.path.join(repo, "pyproject.toml")).read()
        m = re.search(r"\[project\.scripts\]\s*\n((?:[^\[\n].*\n)+)", txt)
        target = None
        for line in (m.group(1) if m else "").splitlines():
            mm = re.match(r'\s*conda-content-trust\s*=\s*"([\w.]+):([\w.]+)"', line)
            if mm:
                target = mm.groups()
        if target:
            p = os.path.join(scratch, "generated-console-script.py")
            with open(p, "w") as f:
                f.write("import sys\nfrom %s import %s\nif __name__ == '__main__':\n    sys.exit(%s())\n" % (target[0], target[1].split(".")[0], target[1]))
            eps.append(("generated-script", [PY, p]))
    except OSError:
        pass
    eps.append(("python-m-package", [PY, "-m", "conda_content_trust"]))
    eps.append(("python-m-cli", [PY, "-m", "conda_content_trust.cli"]))
    return eps


def run_proc(cmd, repo, extra_env=None, timeout=120):
    env = {k: v for k, v in os.environ.items() if k in ("PATH", "HOME", "LANG", "TMPDIR", "GNUPGHOME")}
    env["PYTHONPATH"] = repo + ((os.pathsep + extra_env.pop("PYTHONPATH_EXTRA")) if extra_env and "PYTHONPATH_EXTRA" in extra_env else "")
    env["PYTHONDONTWRITEBYTECODE"] = "1"
    env["PYTHONIOENCODING"] = "utf-8"
    env["PYTHONHASHSEED"] = "0"
    if extra_env:
        env.update(extra_env)
    try:
        p = subprocess.run(cmd, env=env, stdout=subprocess.PIPE, stderr=subprocess.PIPE, timeout=timeout, cwd=os.path.dirname(cmd[-1]) if False else None)
    except subprocess.TimeoutExpired:
        return None, "", "timeout"
    return p.returncode, p.stdout.decode("utf-8", "replace"), p.stderr.decode("utf-8", "replace")


def run_closed_stdout(cmd, repo, unbuffered="0", timeout=120):
    env = {k: v for k, v in os.environ.items() if k in ("PATH", "HOME", "LANG", "TMPDIR")}
    env.update({"PYTHONPATH": repo, "PYTHONDONTWRITEBYTECODE": "1", "PYTHONIOENCODING": "utf-8", "PYTHONHASHSEED": "0"})
    if unbuffered == "1":
        env["PYTHONUNBUFFERED"] = "1"
    p = subprocess.Popen(cmd, env=env, stdout=subprocess.PIPE, stderr=subprocess.DEVNULL)
    p.stdout.close()  # the reader goes away before the tool writes anything
    try:
        return p.wait(timeout)
    except subprocess.TimeoutExpired:
        p.kill()
        return None


def run_on_terminal(cmd, repo, timeout=120):
    """the tool started with a (pseudo-)terminal as standard output and error, as an operator would see it; returns (status, text)"""
    import pty

    env = {k: v for k, v in os.environ.items() if k in ("PATH", "HOME", "LANG", "TMPDIR")}
    env.update({"PYTHONPATH": repo, "PYTHONDONTWRITEBYTECODE": "1", "PYTHONIOENCODING": "utf-8", "PYTHONHASHSEED": "0", "TERM": "xterm-256color"})
    master, slave = pty.openpty()
    try:
        p = subprocess.Popen(cmd, env=env, stdin=subprocess.DEVNULL, stdout=slave, stderr=slave, close_fds=True)
    finally:
        os.close(slave)
    chunks = []
    try:
        while True:
            try:
                b = os.read(master, 65536)
            except OSError:
                break  # EIO: the child closed its side
            if not b:
                break
            chunks.append(b)
        rc = p.wait(timeout)
    except subprocess.TimeoutExpired:
        p.kill()
        rc = None
    finally:
        os.close(master)
    return rc, b"".join(chunks).decode("utf-8", "replace")


def write(path, obj=None, raw=None):
    with open(path, "wb") as f:
        f.write(raw if raw is not None else json.dumps(obj).encode("utf-8"))


ROOT_ROWS = ["accept", "version", "old_rule", "new_rule", "type", "new_malformed", "no_root_delegation", "trusted_malformed", "accept",
             "noisy_reject"]
DELEG_KINDS = ["ok", "below", "wrongkey", "type_mismatch", "unknown_role", "junk", "edited", "ok", "signatures_list", "trusted_not_delegating",
               "trusted_malformed", "untrusted_extra_envelope_field", "openpgp_signed_nonroot", "mixed_raw_and_openpgp"]
CROSS = ["root_under_nonroot_with_root_role", "keymgr_under_keymgr", "root_raw_signed_under_root", "nonstring_type_with_role_named_like_it"]
MALFORMED = ["huge_valid_accept", "valid_prefix_then_padding_then_junk", "huge_valid_reject", "untrusted_not_json", "trusted_not_json", "untrusted_list", "untrusted_scalar", "no_signed", "no_type", "type_not_str",
             "missing_untrusted", "missing_trusted", "empty_file", "swapped", "trusted_is_payload"]
CLASSES = [("root", x) for x in ROOT_ROWS] + [("deleg", x) for x in DELEG_KINDS] + [("cross", x) for x in CROSS] + [("malformed", x) for x in MALFORMED]


def gen_pair(rng, cls=None):
    """returns (label, trusted_bytes|None, untrusted_bytes|None) ; None = file missing"""
    if cls is None:
        cls = rng.choice(CLASSES)
    r = {"root": 0.0, "deleg": 0.5, "cross": 0.82, "malformed": 0.9}[cls[0]]
    U = [gkeys.key(i) for i in range(8)]
    if r < 0.45:
        row = cls[1]
        if row == "noisy_reject":
            # a rejected offer whose verification prints a long report (hundreds of ignored entries): > 8 KiB of stdout
            c = rootchain.gen_pair(rng, "old_rule")
            for j in range(300):
                c["new"]["signatures"]["%064x" % rng.getrandbits(256)] = {"other_headers": "04001608", "signature": "%0128x" % rng.getrandbits(512)}
            return "root:noisy_reject", json.dumps(c["trusted"]).encode(), json.dumps(c["new"]).encode()
        c = rootchain.gen_pair(rng, row)
        return "root:" + row, json.dumps(c["trusted"]).encode(), json.dumps(c["new"]).encode()
    if r < 0.8:
        # delegation (raw signatures): key_mgr / other type under a root
        kind = cls[1]
        km_keys = rng.sample(U, rng.randint(1, 3))
        t = rng.randint(1, len(km_keys))
        utype = rng.choice(["key_mgr", "key_mgr", "pkg_mgr", "other"])
        trusted = rootchain.signed_root(rng.randint(1, 9), [U[7]], 1, [U[7]], rng, km_keys=km_keys, km_t=t,
                                        )
        trusted["signed"]["delegations"][utype] = gmd.delegation(km_keys, t)
        usigned = gmd.delegating(utype, {"pkg_mgr": gmd.delegation([U[6]], 1)}) if utype == "key_mgr" else {
            "type": utype, "payload": jsonvals.rand_value(rng, 0, 2, 3)}
        env = gmd.envelope(usigned)
        signers = rng.sample(km_keys, rng.randint(t, len(km_keys)))
        if kind == "below":
            signers = signers[: t - 1]
        if kind == "wrongkey":
            signers = [U[5]] if U[5] not in km_keys else []
        gmd.sign_env(env, signers, False, rng)
        if kind == "openpgp_signed_nonroot":
            # all signatures OpenPGP-wrapped (valid as such): the command checks non-root files in raw mode, like the library default
            env["signatures"] = {}
            gmd.sign_env(env, signers, True, rng)
        if kind == "mixed_raw_and_openpgp":
            env["signatures"] = {}
            gmd.sign_env(env, signers[:1], False, rng)
            gmd.sign_env(env, signers[1:], True, rng)
        if kind == "type_mismatch":
            del trusted["signed"]["delegations"][utype]
            trusted["signed"]["delegations"]["zzz"] = gmd.delegation(km_keys, t)
        if kind == "unknown_role":
            del trusted["signed"]["delegations"][utype]
        if kind == "junk":
            env["signatures"]["junk"] = "x"
            env["signatures"]["\ud800"] = {"signature": "zz"}
        if kind == "edited":
            if isinstance(env["signed"], dict):
                env["signed"]["edited"] = 1
        # format errors on a NON-root untrusted file: the library rejects with TypeError/ValueError
        if kind == "signatures_list":
            env["signatures"] = [{"keyid": k, "sig": v.get("signature")} for k, v in env["signatures"].items()]
        if kind == "trusted_not_delegating":
            trusted = {"info": {"subdir": "linux-64"}, "packages": {}, "signatures": {}, "signed": {"x": 1}}
        if kind == "trusted_malformed":
            trusted = rootchain.malform(trusted, rng.choice(["del_expiration", "threshold_0", "dup_key", "extra_envelope_field", "version_0"]), rng)
        if kind == "untrusted_extra_envelope_field":
            env["extra"] = 1
        return "deleg:%s:%s" % (utype, kind), json.dumps(trusted).encode(), json.dumps(env).encode()
    if r < 0.86:
        # cross-type pairs: the dispatch is decided by the UNTRUSTED file's declared type alone
        which = cls[1]
        ks = rng.sample(U, 2)
        if which == "root_under_nonroot_with_root_role":
            trusted = gmd.envelope(gmd.delegating("key_mgr", {"root": gmd.delegation(ks, 1), "pkg_mgr": gmd.delegation([U[6]], 1)}))
            env = gmd.sign_env(gmd.envelope(gmd.root_md(2, ks, 1, [U[6]], 1)), ks, False, rng)
        elif which == "nonstring_type_with_role_named_like_it":
            # the untrusted file declares a type that is not a string (null, a number, true, a list); the trusted file delegates to a
            # role whose NAME is what str() / repr() / json would make of that value, and that role's key has validly signed the file.
            # The library's verdict for the dispatch (role = the declared type as it is) decides - there is no role 7, only a role "7"
            tv, names = rng.choice([(None, ["None", "null", ""]), (7, ["7"]), (True, ["True", "true", "1"]), (1.5, ["1.5"]), (0, ["0", "False"]),
                                    (["root"], ["['root']", "root"]), ({"a": 1}, ["{'a': 1}"])])
            trusted = gmd.envelope(gmd.delegating("key_mgr", dict({n: gmd.delegation(ks, 1) for n in names}, pkg_mgr=gmd.delegation([U[6]], 1))))
            env = gmd.sign_env(gmd.envelope({"type": tv, "payload": [1, 2, 3]}), ks, False, rng)
        elif which == "keymgr_under_keymgr":
            trusted = gmd.envelope(gmd.delegating("key_mgr", {"key_mgr": gmd.delegation(ks, 1)}))
            env = gmd.sign_env(gmd.envelope(gmd.delegating("key_mgr", {})), ks[:1], False, rng)
        else:
            trusted = rootchain.signed_root(1, ks, 1, ks, rng)
            env = gmd.sign_env(gmd.envelope(gmd.root_md(2, ks, 1, [U[6]], 1)), ks, False, rng)  # raw, not OpenPGP: root chaining must reject
        return "cross:" + which, json.dumps(trusted).encode(), json.dumps(env).encode()
    k = cls[1]
    c = rootchain.gen_pair(rng, "accept")
    tb, ub = json.dumps(c["trusted"]).encode(), json.dumps(c["new"]).encode()
    if k in ("huge_valid_accept", "huge_valid_reject"):
        # a large but perfectly valid offer (thousands of ignorable entries): well over half a megabyte
        c = rootchain.gen_pair(rng, "accept" if k == "huge_valid_accept" else "old_rule")
        for j in range(4000):
            c["new"]["signatures"]["%064x" % rng.getrandbits(256)] = {"other_headers": "04001608", "signature": "%0128x" % rng.getrandbits(512)}
        tb, ub = json.dumps(c["trusted"]).encode(), json.dumps(c["new"], indent=1).encode()
    elif k == "valid_prefix_then_padding_then_junk":
        # NOT a JSON document: a valid signed offer, then whitespace up to beyond any plausible read limit, then garbage
        ub = ub + b" " * rng.choice([70000, 600000, 1100000]) + rng.choice([b"garbage", b"{}", ub])
    elif k == "untrusted_not_json":
        ub = b"{not json"
    elif k == "trusted_not_json":
        tb = b"\xff\xfe garbage"
    elif k == "untrusted_list":
        ub = b"[1, 2]"
    elif k == "untrusted_scalar":
        ub = rng.choice([b"5", b"null", b'"root"'])
    elif k == "no_signed":
        ub = json.dumps({"signatures": {}}).encode()
    elif k == "no_type":
        d = copy.deepcopy(c["new"])
        del d["signed"]["type"]
        ub = json.dumps(d).encode()
    elif k == "type_not_str":
        d = copy.deepcopy(c["new"])
        d["signed"]["type"] = rng.choice([5, None, ["root"]])
        ub = json.dumps(d).encode()
    elif k == "missing_untrusted":
        ub = None
    elif k == "missing_trusted":
        tb = None
    elif k == "empty_file":
        ub = b""
    elif k == "swapped":
        tb, ub = ub, tb
    elif k == "trusted_is_payload":
        tb = json.dumps({"signatures": {}, "signed": {"a": 1}}).encode()
    return "malformed:" + k, tb, ub


def inprocess_verdict(lib, tpath, upath):
    """the library's verdict for the dispatch the property states"""
    C, A = lib.common, lib.authentication
    try:
        u = C.load_metadata_from_file(upath)
        t = C.load_metadata_from_file(tpath)
        mtype = u["signed"]["type"]
    except Exception as e:  # noqa: BLE001
        return False, "load/dispatch error: %s" % type(e).__name__
    if mtype == "root":
        o = boundary.call(lib, A.verify_root, t, u)
    else:
        o = boundary.call(lib, A.verify_delegation, mtype, u, t)
    return o.accepted, o.brief()


def run_verify(spec, rec, lib):
    rng = random.Random(spec["seed"])
    d = spec["scratch"]
    eps = entry_points(lib.repo, d)
    for n in range(spec["count"]):
        # classes in rotation across shards, so that even the quick tier meets every class
        label, tb, ub = gen_pair(rng, CLASSES[(spec["_id"] * spec["count"] + n) % len(CLASSES)])
        tp, up = os.path.join(d, "t%d.json" % n), os.path.join(d, "u%d.json" % n)
        if tb is not None:
            write(tp, raw=tb)
        if ub is not None:
            write(up, raw=ub)
        acc, why = inprocess_verdict(lib, tp, up)
        rec.hist("pair_class", label.split(":")[0] + ":" + ("accept" if acc else "reject"))
        for name, cmd in eps:
            rc, so, se = run_proc(cmd + ["verify-metadata", tp, up], lib.repo)
            rec.case("%s|%s" % (name, label))
            rec.hist("entry_point", name)
            rec.hist("exit_status", str(rc))
            case = {"kind": "verify", "entry": name, "label": label,
                    "trusted": tb.decode("utf-8", "replace") if tb is not None else None,
                    "untrusted": ub.decode("utf-8", "replace") if ub is not None else None}
            if rc is None:
                rec.inconclusive_because("CLI process timed out")
                continue
            if acc and rc != 0:
                rec.violation("exit-status/%s/nonzero-on-accept" % name, "library accepts (%s) but %s exited %d: %s" % (why, name, rc, se[-200:]), case)
            if not acc and rc == 0:
                rec.violation("exit-status/%s/zero-on-reject" % name, "library rejects (%s) but %s exited 0" % (why, name), case)
            ok_txt = "verification successful" in so.lower()
            fail_txt = "verification of untrusted metadata failed" in so.lower()
            if rc == 0 and fail_txt:
                rec.violation("output/%s/failure-report-with-exit-0" % name, "exit 0 but the failure report was printed", case)
            if rc != 0 and ok_txt:
                rec.violation("output/%s/success-report-with-nonzero-exit" % name, "exit %d but a success report was printed" % rc, case)
            if rc == 0 and not ok_txt:
                rec.count("accept_without_success_report")
                rec.violation("output/%s/no-success-report-on-accept" % name, "exit 0 without reporting success", case)
        if not acc and tb is not None and ub is not None and (label.endswith("noisy_reject") or n % 4 == 0):
            # I/O fault at a particular point: stdout is a pipe whose reader has gone away.  Whatever happens to
            # the report, a rejected pair must not produce exit status 0.
            for name, cmd in eps:
                for unbuf in ("0", "1"):
                    rc = run_closed_stdout(cmd + ["verify-metadata", tp, up], lib.repo, unbuf)
                    rec.case("%s|closed-stdout|%s|%s" % (name, label, unbuf))
                    rec.count("closed_stdout_runs")
                    if rc == 0:
                        rec.violation("exit-status/%s/zero-on-reject-with-closed-stdout" % name,
                                      "library rejects (%s); with stdout a closed pipe (PYTHONUNBUFFERED=%s) %s exited 0" % (why, unbuf, name),
                                      {"kind": "verify", "entry": name, "label": label + "+closed-stdout",
                                       "trusted": tb.decode("utf-8", "replace"), "untrusted": ub.decode("utf-8", "replace")})
        if tb is not None and n % 2 == 0:
            # ONE file given in both positions - under the same name, another spelling of its path, a symbolic link, a hard link,
            # a byte-identical copy: the status still says what the library says about that pair of documents
            base = os.path.basename(tp)
            aliases = [("same-path", tp), ("dot-segment", os.path.join(d, ".", base)), ("double-slash", d + "//" + base)]
            try:
                sl = os.path.join(d, "link-%d.json" % n)
                if not os.path.lexists(sl):
                    os.symlink(tp, sl)
                aliases.append(("symlink", sl))
                hl = os.path.join(d, "hard-%d.json" % n)
                if not os.path.lexists(hl):
                    os.link(tp, hl)
                aliases.append(("hardlink", hl))
            except OSError:
                rec.count("links_unavailable")
            cp = os.path.join(d, "copy-%d.json" % n)
            write(cp, raw=tb)
            aliases.append(("copy", cp))
            how, alias = aliases[(n // 2) % len(aliases)]
            acc2, why2 = inprocess_verdict(lib, tp, alias)
            name, cmd = eps[(n // 2) % len(eps)]
            for order in ((tp, alias), (alias, tp)):
                rc, so, se = run_proc(cmd + ["verify-metadata", order[0], order[1]], lib.repo)
                rec.case("%s|same-file|%s|%s" % (name, how, label))
                rec.count("same_file_in_both_positions_runs")
                if rc is None:
                    rec.inconclusive_because("CLI process timed out")
                elif (rc == 0) != bool(acc2):
                    rec.violation("exit-status/%s/%s-same-file-in-both-positions" % (name, "zero-on-reject" if rc == 0 else "nonzero-on-accept"),
                                  "library %s (%s) the pair (file, %s of the same file); %s exited %d" % ("accepts" if acc2 else "rejects", why2, how, name, rc),
                                  {"kind": "verify", "entry": name, "label": label + "+same-file:" + how, "same_file": how,
                                   "trusted": tb.decode("utf-8", "replace"), "untrusted": tb.decode("utf-8", "replace")})
        if tb is not None and ub is not None and n % 3 == 0:
            # the same pair with a terminal as standard output (colours, isatty() branches): same statuses
            name, cmd = eps[n % len(eps)]
            try:
                rc, txt = run_on_terminal(cmd + ["verify-metadata", tp, up], lib.repo)
            except OSError:
                rc, txt = None, ""
                rec.count("pty_unavailable")
            if rc is not None:
                rec.case("%s|terminal|%s" % (name, label))
                rec.count("terminal_runs")
                if (rc == 0) != bool(acc):
                    rec.violation("exit-status/%s/%s-on-a-terminal" % (name, "zero-on-reject" if rc == 0 else "nonzero-on-accept"),
                                  "library %s (%s); started with a terminal as standard output %s exited %d"
                                  % ("accepts" if acc else "rejects", why, name, rc),
                                  {"kind": "verify", "entry": name, "label": label + "+terminal",
                                   "trusted": tb.decode("utf-8", "replace"), "untrusted": ub.decode("utf-8", "replace")})
        if n < 1:
            rec.sample({"pair": label, "library_verdict": why, "entry_points": [e[0] for e in eps]})


ALT_KEYS = {
    "good_key_leading_zero_digit": gkeys.Key(bytes([0x0B]) + bytes(range(1, 32))),
    "good_key_leading_zero_bytes": gkeys.Key(bytes([0, 0, 0, 1]) + bytes(range(4, 32))),
    "good_key_all_zero": gkeys.Key(bytes(32)),
    "good_key_0x_like_start": gkeys.Key(bytes([0x00, 0x0E]) + bytes(range(2, 32))),
    "good_key_all_f": gkeys.Key(b"\xff" * 32),
    "good_key_trailing_zeros": gkeys.Key(bytes(range(1, 29)) + bytes(4)),
}


def run_sign_artifacts(spec, rec, lib):
    rng = random.Random(spec["seed"])
    d = spec["scratch"]
    eps = entry_points(lib.repo, d)
    key = gkeys.key(3)
    scenarios = [
        ("good", key.seed.hex(), True), ("good_upper_padded", "  " + key.seed.hex().upper() + "\n", True),
        ("good_only_conda_section", key.seed.hex(), True), ("good_only_packages_section", key.seed.hex(), True),
        ("good_both_sections_empty", key.seed.hex(), True), ("good_one_artifact", key.seed.hex(), True),
        ("good_resign_after_hotfix", key.seed.hex(), True), ("good_planted_own_key_entries", key.seed.hex(), True),
        # key VALUES: the hex text of a valid key may begin with zeros, be all zeros, look like a prefix ...
        ("good_key_leading_zero_digit", ALT_KEYS["good_key_leading_zero_digit"].seed.hex(), True),
        ("good_key_leading_zero_bytes", ALT_KEYS["good_key_leading_zero_bytes"].seed.hex(), True),
        ("good_key_all_zero", ALT_KEYS["good_key_all_zero"].seed.hex(), True),
        ("good_key_0x_like_start", ALT_KEYS["good_key_0x_like_start"].seed.hex(), True),
        ("good_key_all_f", ALT_KEYS["good_key_all_f"].seed.hex(), True),
        ("good_key_trailing_zeros", ALT_KEYS["good_key_trailing_zeros"].seed.hex(), True),
        ("key_not_hex", "zz" * 32, False), ("key_short", key.seed.hex()[:-2], False), ("key_empty", "", False),
        ("key_long", key.seed.hex() + "00", False), ("key_missing", None, False),
        ("repodata_not_json", key.seed.hex(), False), ("repodata_no_packages", key.seed.hex(), False),
        ("repodata_packages_list", key.seed.hex(), False), ("repodata_missing", key.seed.hex(), False),
        ("repodata_toplevel_list", key.seed.hex(), False),
    ]
    for rep in range(spec["count"]):
        doc = c11.gen_doc(rng)["doc"]
        for _try in range(50):
            # the history scenarios below need something to re-sign: at least two artifacts, one of them with object metadata
            arts = [md for sec in ("packages", "packages.conda") for md in doc.get(sec, {}).values()]
            if len(arts) >= 2 and any(isinstance(md, dict) for md in arts):
                break
            doc = c11.gen_doc(rng)["doc"]
        for scen, keytext, should_sign in scenarios:
            for name, cmd in eps:
                rp, kp = os.path.join(d, "repodata.json"), os.path.join(d, "key.txt")
                for p in (rp, kp):
                    if os.path.exists(p):
                        os.remove(p)
                orig = json.dumps(doc).encode()
                shape = {"good_only_conda_section": {"info": {}, "packages": {}, "packages.conda": {"a-1-0.conda": {"name": "a"}, "b-1-0.conda": {"name": "b"}}},
                         "good_only_packages_section": {"packages": {"a-1-0.tar.bz2": {"name": "a"}}, "packages.conda": {}},
                         "good_both_sections_empty": {"packages": {}, "packages.conda": {}, "signatures": {"stale-1-0.conda": {}}},
                         "good_one_artifact": {"packages": {"a-1-0.tar.bz2": {"name": "a"}}}}.get(scen)
                if shape is not None:
                    orig = json.dumps(shape).encode()
                if scen == "good_resign_after_hotfix":
                    # history kept in the file: signed earlier with this very key, then an artifact's metadata was edited
                    base_doc = json.loads(json.dumps(doc))
                    signed_doc = c11.expected_doc(base_doc, key)
                    for sec in ("packages", "packages.conda"):
                        for j, (an, md) in enumerate(sorted(signed_doc.get(sec, {}).items())):
                            if j % 2 == 0 and isinstance(md, dict):
                                md["depends-hotfix"] = ["x >=%d" % rep]
                            elif j % 2 == 0:
                                signed_doc[sec][an] = {"replaced": md}
                    orig = canonjson.canon(signed_doc)
                elif scen == "good_planted_own_key_entries":
                    base_doc = json.loads(json.dumps(doc))
                    base_doc["signatures"] = {an: {key.hex: {"signature": "%0128x" % rng.getrandbits(512)}}
                                              for sec in ("packages", "packages.conda") for an in base_doc.get(sec, {})}
                    orig = json.dumps(base_doc).encode()
                if scen == "repodata_not_json":
                    orig = b"{nope"
                elif scen == "repodata_no_packages":
                    orig = json.dumps({"info": {}}).encode()
                elif scen == "repodata_packages_list":
                    orig = json.dumps({"packages": [1, 2]}).encode()
                elif scen == "repodata_toplevel_list":
                    orig = b"[]"
                if scen != "repodata_missing":
                    write(rp, raw=orig)
                if keytext is not None:
                    with open(kp, "w") as f:
                        f.write(keytext)
                rc, so, se = run_proc(cmd + ["sign-artifacts", rp, kp], lib.repo)
                after = open(rp, "rb").read() if os.path.exists(rp) else None
                rec.case("%s|sign-artifacts|%s" % (name, scen))
                rec.hist("sign_scenario", scen + ":" + str(rc))
                case = {"kind": "sign_artifacts", "entry": name, "scenario": scen}
                if rc is None:
                    rec.inconclusive_because("CLI process timed out")
                    continue
                if should_sign:
                    exp = canonjson.canon(c11.expected_doc(json.loads(orig), ALT_KEYS.get(scen, key)))
                    if rc != 0:
                        rec.violation("exit-status/%s/sign-artifacts-nonzero-on-success-scenario" % name,
                                      "valid key and repodata but exit %d: %s" % (rc, se[-200:]), case)
                    elif after != exp:
                        rec.violation("effect/%s/sign-artifacts-exit-0-but-not-signed-as-expected" % name,
                                      "exit 0 but the file is not the expected signed document", case)
                else:
                    if rc == 0:
                        rec.violation("exit-status/%s/sign-artifacts-zero-but-nothing-signed/%s" % (name, scen.split("_")[0]),
                                      "scenario %s: exit 0 although nothing was signed (stdout: %s)" % (scen, so[:80]), case)
                    if scen != "repodata_missing" and after != orig:
                        rec.violation("effect/%s/sign-artifacts-file-changed-on-failure" % name, "failed run changed the file", case)
    rec.sample({"sign_artifacts_scenarios": [s[0] for s in scenarios]})


def run_gpg_sign(spec, rec, lib):
    if not gnupg.gpg_available():
        rec.count("gnupg_skipped_no_binary")
        rec.case("gpg-sign-skipped", nontrivial=False)
        return
    rng = random.Random(spec["seed"])
    d = spec["scratch"]
    eps = entry_points(lib.repo, d)
    shim = os.path.join(VERIF, "vf", "shims")
    try:
        home = gnupg.GpgHome().__enter__()
    except Exception:  # noqa: BLE001 - environmental: skip the sub-workload
        rec.count("gnupg_unavailable")
        rec.case("gpg-sign-unavailable", nontrivial=False)
        return
    try:
        fpr = list(gnupg.SHIPPED)[0]
        q = gnupg.SHIPPED[fpr]
        for rep in range(spec["count"]):
            md = gmd.root_md(rng.randint(1, 9), [gkeys.key(0)], 1, [gkeys.key(1)], 1)
            env = gmd.envelope(md)
            orig = canonjson.canon(env)
            data = canonjson.canon(md)
            scen = [("good", fpr, True, True), ("good_spaced_upper", " ".join(fpr.upper()[i:i + 4] for i in range(0, 40, 4)), True, True),
                    ("unknown_fingerprint", "ab" * 20, True, False), ("bad_fingerprint", "xyz", True, False),
                    ("no_sslib", fpr, False, False), ("file_not_json", fpr, True, False), ("file_missing", fpr, True, False)]
            for name, cmd in eps:
                for sc, fp_arg, with_shim, should in scen:
                    fp = os.path.join(d, "root.json")
                    if os.path.exists(fp):
                        os.remove(fp)
                    o = orig if sc != "file_not_json" else b"{nope"
                    if sc != "file_missing":
                        write(fp, raw=o)
                    extra = {"GNUPGHOME": home.home}
                    if with_shim:
                        extra["PYTHONPATH_EXTRA"] = shim
                    rc, so, se = run_proc(cmd + ["gpg-sign", fp_arg, fp], lib.repo, extra)
                    after = open(fp, "rb").read() if os.path.exists(fp) else None
                    rec.case("%s|gpg-sign|%s" % (name, sc))
                    rec.hist("gpg_scenario", sc + ":" + str(rc))
                    case = {"kind": "gpg_sign", "entry": name, "scenario": sc}
                    if rc is None:
                        rec.inconclusive_because("CLI process timed out")
                        continue
                    if should:
                        ok = False
                        try:
                            doc = json.loads(after)
                            e = doc["signatures"][q]
                            ok = (canonjson.canon(doc) == after and doc["signed"] == md and
                                  openpgp.verify(bytes.fromhex(q), data, bytes.fromhex(e["other_headers"]), bytes.fromhex(e["signature"])))
                        except Exception:
                            ok = False
                        if rc != 0:
                            if "gpg failed" in se or "CommandError" in se:
                                rec.count("gnupg_shim_failures")
                            else:
                                rec.violation("exit-status/%s/gpg-sign-nonzero-on-success-scenario" % name, "exit %d: %s" % (rc, se[-200:]), case)
                        elif not ok:
                            rec.violation("effect/%s/gpg-sign-exit-0-but-no-valid-entry" % name,
                                          "exit 0 but the file carries no reference-valid OpenPGP entry under the key's raw value", case)
                        else:
                            rec.count("gpg_sign_verified")
                    else:
                        if rc == 0:
                            rec.violation("exit-status/%s/gpg-sign-zero-but-nothing-signed/%s" % (name, sc), "scenario %s exited 0" % sc, case)
                        if sc != "file_missing" and after != o:
                            rec.violation("effect/%s/gpg-sign-file-changed-on-failure" % name, "failed run changed the file (%s)" % sc, case)
        rec.sample({"gpg_sign_scenarios": ["good", "good_spaced_upper", "unknown_fingerprint", "bad_fingerprint", "no_sslib", "file_not_json", "file_missing"]})
    finally:
        home.__exit__(None, None, None)


def run_status_sweep(spec, rec, lib):
    """exit statuses are 8 bits wide: whatever a rejection's status encodes, it must not come out as 0.  Rejections whose
    *size* varies (threshold T, g good signatures, for every T up to a few hundred) are run through the command-line function
    in-process; a returned status whose low 8 bits are 0 is then confirmed with a real process before it is reported."""
    rng = random.Random(spec["seed"])
    d = spec["scratch"]
    eps = entry_points(lib.repo, d)
    U = [gkeys.key(i) for i in range(4)]
    tp, up = os.path.join(d, "sw-t.json"), os.path.join(d, "sw-u.json")
    for T in range(1, spec["upto"]):
        for g in (0, 1):
            for kind in ("root", "key_mgr"):
                if kind == "root":
                    trusted = gmd.envelope(gmd.root_md(1, U[:2], T, [U[2]], 1))
                    off = gmd.envelope(gmd.root_md(2, U[:2], 1, [U[2]], 1))
                    gmd.sign_env(off, U[:g], True, rng)
                else:
                    trusted = gmd.envelope(gmd.root_md(1, U[:1], 1, U[1:3], T))
                    off = gmd.envelope(gmd.delegating("key_mgr", {"pkg_mgr": gmd.delegation([U[3]], 1)}, version=2))
                    gmd.sign_env(off, U[1:1 + g], False, rng)
                if T <= g:
                    continue
                write(tp, obj=trusted)
                write(up, obj=off)
                acc, why = inprocess_verdict(lib, tp, up)
                if acc:
                    continue
                try:
                    o = boundary.call(lib, lib.cli.cli, ["verify-metadata", tp, up])
                    ret = o.value if o.accepted else 1
                except SystemExit as e:
                    ret = e.code
                status = 0 if ret is None else ((ret & 0xFF) if isinstance(ret, int) and not isinstance(ret, bool) else 1)
                rec.case("sweep|%s|%d|%d" % (kind, T, g), nontrivial=T in (1, 2, 246, 236, 256))
                rec.count("status_sweep_rejections")
                if status == 0:
                    real = [run_proc(cmd + ["verify-metadata", tp, up], lib.repo)[0] for _n, cmd in eps[:2]]
                    rec.count("status_sweep_confirmations")
                    if any(r == 0 for r in real):
                        rec.violation("exit-status/%s/zero-on-reject/status-wraps" % eps[0][0],
                                      "library rejects (%s; threshold %d, %d good signature(s)); the command-line function returned %r and the "
                                      "process exits with status 0" % (why, T, g, ret),
                                      {"kind": "verify", "entry": eps[0][0], "label": "sweep:%s:T=%d:g=%d" % (kind, T, g),
                                       "trusted": json.dumps(trusted), "untrusted": json.dumps(off)})
                        return


def run_shard(spec, rec, lib):
    if spec["kind"] == "status_sweep":
        return run_status_sweep(spec, rec, lib)
    {"verify": run_verify, "sign_artifacts": run_sign_artifacts, "gpg_sign": run_gpg_sign}[spec["kind"]](spec, rec, lib)


def finish(merged, tier, seed):
    h = merged.hists.get("pair_class", {})
    if not any(k.endswith(":accept") for k in h) or not any(k.endswith(":reject") for k in h):
        merged.inconclusive_because("verify-metadata workload lacks accepting or rejecting pairs: %r" % h)
    if len(merged.hists.get("entry_point", {})) < 3:
        merged.inconclusive_because("fewer than 3 entry points exercised")


def replay(case, rec, lib):
    import shutil
    import tempfile

    d = tempfile.mkdtemp(prefix="vf_c17_")
    try:
        if case.get("kind") == "verify":
            tp, up = os.path.join(d, "t.json"), os.path.join(d, "u.json")
            if case["trusted"] is not None:
                write(tp, raw=case["trusted"].encode("utf-8", "replace"))
            if case["untrusted"] is not None:
                write(up, raw=case["untrusted"].encode("utf-8", "replace"))
            if case.get("same_file"):
                up = tp if case["same_file"] != "symlink" else os.path.join(d, "link.json")
                if up != tp:
                    os.symlink(tp, up)
            acc, why = inprocess_verdict(lib, tp, up)
            for name, cmd in entry_points(lib.repo, d):
                rc, so, se = run_proc(cmd + ["verify-metadata", tp, up], lib.repo)
                rec.case(name)
                print(name, "exit", rc, "library:", why)
                if (rc == 0) != acc:
                    rec.violation("exit-status/%s/%s" % (name, "zero-on-reject" if rc == 0 else "nonzero-on-accept"), why, case)
        elif case.get("kind") == "sign_artifacts":
            run_sign_artifacts({"seed": 1, "scratch": d, "count": 1}, rec, lib)
        else:
            run_gpg_sign({"seed": 1, "scratch": d, "count": 1}, rec, lib)
    finally:
        shutil.rmtree(d, ignore_errors=True)
