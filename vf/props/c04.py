"""C04 - root chain integrity over arbitrary histories of offered updates."""
import copy
import os
import random

from .. import lib as vlib
from ..engines import rootchain
from ..gen import keys as gkeys
from ..monitors import boundary
from ..refs import canonjson, ed25519, models

RULE = (
    "simulated client + reference model run in lock-step over histories of offers generated relative to the evolving trusted root: "
    "honest updates (key rotation, threshold change, junk-laden), replay of the current root, rollback to earlier roots, version "
    "skipping, offers signed by revoked keys, self-appointed keys, one-too-few old or new signers, type-confused and malformed "
    "offers, with/without persisting the trusted root between steps. Offline checker over the recorded history: lock-step "
    "verdicts, chain invariant (version = initial + #accepted, each link re-verified by the reference under the previous link's "
    "keys), no adversarial offer accepted, every (trusted, offer) pair re-evaluated in a fresh module instance in shuffled order "
    "gives the same verdict. distinct = distinct (offer class sequence) histories; non-trivial = history with >= 1 accepted and "
    ">= 1 rejected offer."
)
RULE_ADDENDUM = (
    'Further offer classes: replayed signatures, draft thresholds, superset take-over, raw-shaped entries under root keys, decoy roles, one insider key under several spellings, an offered rule naming one key twice; persistence by library write / atomic replace / external writer; command-line verdicts for some steps.'
)
RULE = RULE + " " + RULE_ADDENDUM
LIMITS = ["histories of at most 40 offers; the unbounded 'never' is claimed only for the histories run", "8-key universe"]
ASSUMPTIONS = ["reference root rule (vf/refs/models.py), reference signer"]

CLASSES = ["honest", "honest", "honest", "honest_junk", "replay_current", "rollback", "skip", "revoked", "self_appointed",
           "insufficient_old", "insufficient_new", "type_confused", "malformed", "corrupted_sigs", "wrong_payload_sigs",
           "replayed_signatures", "replayed_signatures", "draft_threshold_above_keys", "draft_threshold_above_keys",
           "superset_takeover", "superset_takeover", "same_keys_lower_threshold_by_outsider", "raw_shaped_entries_under_root_keys",
           "raw_shaped_entries_under_root_keys", "decoy_root_role", "insider_respelled_entries", "insider_respelled_entries", "duplicate_key_in_offered_rule", "duplicate_key_in_offered_rule"]


def plan(tier, seed):
    n = 240 if tier == "quick" else 6400
    shards = 12 if tier == "quick" else 32
    return [{"kind": "hist", "count": n // shards, "maxlen": 15 if tier == "quick" else 40} for _ in range(shards)]


def keyset(env):
    d = env["signed"]["delegations"]["root"]
    allk = {k.hex: k for k in rootchain.uni()}
    return [allk[h] for h in d["pubkeys"] if h in allk], d["threshold"]


def gen_offer(cls, trusted, accepted_log, rng):
    U = rootchain.uni()
    K, t = keyset(trusted)
    v = trusted["signed"]["version"]
    Kh = {k.hex for k in K}
    outsiders = [k for k in U if k.hex not in Kh]
    mode = rng.choice(["same", "rotate", "grow", "shrink", "replace"])
    if mode == "same" or not outsiders:
        K2 = list(K)
    elif mode == "rotate":
        K2 = K[1:] + [rng.choice(outsiders)]
    elif mode == "grow":
        K2 = K + rng.sample(outsiders, min(len(outsiders), rng.randint(1, 2)))
    elif mode == "shrink":
        K2 = K[: max(1, len(K) - 1)]
    else:
        K2 = rng.sample(outsiders, min(len(outsiders), rng.randint(1, 3)))
    K2 = K2[:4]
    t2 = rng.randint(1, len(K2))
    need_old = rng.sample(K, t) if t <= len(K) else list(K)
    t_eff = min(t, len(K))
    need_new = rng.sample(K2, t2)
    signers = {k.hex: k for k in need_old + need_new}
    adversarial = False
    if cls in ("honest", "honest_junk"):
        return rootchain.signed_root(v + 1, K2, t2, list(signers.values()), rng,
                                     junk=3 if cls == "honest_junk" else 0,
                                     unauthorized=rng.sample(outsiders, min(1, len(outsiders))) if cls == "honest_junk" else ()), False
    if cls == "replay_current":
        return copy.deepcopy(trusted), False
    if cls == "rollback":
        if accepted_log:
            return copy.deepcopy(rng.choice(accepted_log)), False
        return rootchain.signed_root(max(1, v - 1), K, t, need_old, rng), False
    if cls == "skip":
        return rootchain.signed_root(v + rng.choice([2, 3, 10]), K2, t2, list(signers.values()), rng), False
    if cls == "revoked":
        # keys that were root keys in an earlier accepted root but are not any more
        old = []
        for e in accepted_log:
            for k in keyset(e)[0]:
                if k.hex not in Kh and k.hex not in {x.hex for x in old}:
                    old.append(k)
        if not old:
            old = outsiders[:2]
        return rootchain.signed_root(v + 1, old, 1, old, rng), True
    if cls == "self_appointed":
        att = outsiders[:2] or [gkeys.key(20)]
        return rootchain.signed_root(v + 1, att, 1, att, rng), True
    if cls == "insufficient_old":
        # one fewer than the threshold of current keys (+ everything the new rule needs from non-current keys)
        part = rng.sample(K, max(0, t_eff - 1))
        newonly = [k for k in K2 if k.hex not in Kh]
        K2b = newonly or outsiders[:1] or [gkeys.key(21)]
        return rootchain.signed_root(v + 1, K2b + part, max(1, len(K2b)), part + K2b, rng), True
    if cls == "insufficient_new":
        extra = outsiders[:2] or [gkeys.key(22)]
        K2c = K + extra
        return rootchain.signed_root(v + 1, K2c, len(K2c), need_old, rng), False
    if cls == "type_confused":
        return rootchain.signed_root(v + 1, K2, t2, list(signers.values()), rng, md_type="key_mgr"), False
    if cls == "malformed":
        good = rootchain.signed_root(v + 1, K2, t2, list(signers.values()), rng)
        return rootchain.malform(good, rng.choice(rootchain.MALFORMATIONS), rng), False
    if cls == "corrupted_sigs":
        return rootchain.signed_root(v + 1, K2, t2, [], rng, bad_signers=list(signers.values())), True
    if cls == "wrong_payload_sigs":
        # signatures transplanted from an honest offer onto an edited payload
        good = rootchain.signed_root(v + 1, K2, t2, list(signers.values()), rng)
        att = outsiders[:1] or [gkeys.key(23)]
        good["signed"]["delegations"]["root"]["pubkeys"] = [k.hex for k in att] + good["signed"]["delegations"]["root"]["pubkeys"]
        good["signed"]["delegations"]["root"]["threshold"] = 1
        return good, True
    if cls == "raw_shaped_entries_under_root_keys":
        # self-appointed key signs properly (OpenPGP); under the CURRENT root keys' names sit raw-shaped entries (any hex): root
        # chaining only ever counts OpenPGP-wrapped signatures
        att = outsiders[:1] or [gkeys.key(27)]
        off = rootchain.signed_root(v + 1, att, 1, att, rng)
        data = canonjson.canon(off["signed"])
        for k in K:
            off["signatures"][k.hex] = rng.choice([{"signature": "%0128x" % rng.getrandbits(512)},
                                                   {"signature": ed25519.sign(gkeys.key(28).seed, data).hex()}])
        return off, True
    if cls == "insider_respelled_entries":
        # an insider holding FEWER than the threshold of current root keys appoints his own key; each held key's valid signature is
        # filed under the key itself and again under other spellings of it (upper / mixed case, padded, prefixed): one signer, one slot
        att = outsiders[:1] or [gkeys.key(30)]
        held = rng.sample(K, max(0, t_eff - 1))
        off = rootchain.signed_root(v + 1, att, 1, att + held, rng)
        for k in held:
            e = off["signatures"].get(k.hex)
            if e is None:
                continue
            sps = gkeys.respellings(k.hex)
            for sp in [sps[0], sps[1]] + rng.sample(sps[2:], 2):
                off["signatures"][sp] = copy.deepcopy(e)
        items = list(off["signatures"].items())
        rng.shuffle(items)
        off["signatures"] = dict(items)
        return off, True
    if cls == "duplicate_key_in_offered_rule":
        # signed by everything both rules ask for, but the offered root's own key list names one key twice (adjacent or not): such a
        # list is malformed - stepping into it would let that key count twice later on
        base = list(K2) if len(K2) >= 2 else list(K2) + (outsiders[:1] or [gkeys.key(31)])
        dup = base[0]
        ks = rng.choice([[dup] + base[1:] + [dup], [dup, dup] + base[1:], base + [dup]])
        signers2 = list({k.hex: k for k in need_old + base}.values())
        off = rootchain.signed_root(v + 1, base, min(2, len(base)), signers2, rng)
        off["signed"]["delegations"]["root"]["pubkeys"] = [k.hex for k in ks]
        data = canonjson.canon(off["signed"])
        off["signatures"] = {k.hex: rootchain.gpg_entry(k, data, rng) for k in signers2}
        return off, False
    if cls == "decoy_root_role":
        att = outsiders[:1] or [gkeys.key(29)]
        off = rootchain.signed_root(v + 1, K2, t2, [], rng, extra=None)
        off["signed"]["delegations"][rng.choice(["root.json", "Root", "root ", ""])] = {"pubkeys": [a.hex for a in att], "threshold": 1}
        data = canonjson.canon(off["signed"])
        for a in att:
            off["signatures"][a.hex] = rootchain.gpg_entry(a, data, rng)
        return off, True
    if cls == "superset_takeover":
        # keeps every current root key, ADDS attacker keys, equal-or-higher threshold, signed by the added keys only
        att = (outsiders[:max(1, min(len(outsiders), t if t <= 3 else 3))]) or [gkeys.key(25)]
        t_new = rng.choice([min(t, len(K)) or 1, len(att), max(1, min(t, len(K)))])
        t_new = max(1, min(t_new, len(att)))
        ks = list(K) + att
        rng.shuffle(ks)
        return rootchain.signed_root(v + 1, ks, max(t_new, min(t, len(att))), att, rng), len(att) < 10**9
    if cls == "same_keys_lower_threshold_by_outsider":
        att = outsiders[:1] or [gkeys.key(26)]
        return rootchain.signed_root(v + 1, list(K), 1, att, rng, unauthorized=att), True
    if cls == "draft_threshold_above_keys":
        # legal "draft" shape: the offered root demands more signers than it lists; every listed key (and a threshold of the
        # current keys) signs, further entries follow - it can never satisfy its own rule and must not be stepped into
        extra = outsiders[:2]
        return rootchain.signed_root(v + 1, K2, len(K2) + 1, list({k.hex: k for k in need_old + K2}.values()), rng,
                                     unauthorized=extra, junk=1), False
    if cls == "replayed_signatures":
        # forged successor of the CURRENT trusted root that re-uses, verbatim, the signature entries the
        # library verified when it accepted that root (same keys, same thresholds, attacker-chosen content)
        forged = copy.deepcopy(trusted)
        forged["signed"]["version"] = v + 1
        att = outsiders[:1] or [gkeys.key(24)]
        forged["signed"]["delegations"]["key_mgr"] = {"pubkeys": [k.hex for k in att], "threshold": 1}
        return forged, True
    raise ValueError(cls)


def gen_history(rng, maxlen):
    U = rootchain.uni()
    K = rng.sample(U, rng.randint(1, 3))
    t = rng.randint(1, len(K))
    if rng.random() < 0.15:
        t = len(K) + 1  # the trusted root itself is a "draft": nobody can ever meet its threshold
    initial = rootchain.signed_root(rng.choice([1, 1, 5, 2**31]), K, t, K, rng)
    n = rng.randint(4, maxlen)
    steps = []
    # the generator keeps its own model-side state to author offers relative to it
    trusted = initial
    accepted_log = [initial]
    for _ in range(n):
        cls = rng.choice(CLASSES)
        offer, adversarial = gen_offer(cls, trusted, accepted_log, rng)
        persist = rng.random() < 0.3
        steps.append({"class": cls, "offer": offer, "persist": persist, "adversarial": adversarial})
        mv, _f = models.root_verdict(trusted, offer)
        if mv.v == models.ACCEPT:
            trusted = offer
            accepted_log.append(offer)
    return {"kind": "history", "initial": initial, "steps": steps}


def run_history(case, rec, lib, scratch, rng, fresh=None):
    C, A = lib.common, lib.authentication
    client = copy.deepcopy(case["initial"])
    model = copy.deepcopy(case["initial"])
    v0 = client["signed"]["version"]
    log = []
    n_acc = n_rej = 0
    classes = []
    for i, st in enumerate(case["steps"]):
        offer_c, offer_m = copy.deepcopy(st["offer"]), copy.deepcopy(st["offer"])
        classes.append(st["class"])
        if st["persist"]:
            # the client persists its trusted root under a fixed name and reloads it; the file is replaced
            # through the library, atomically (temp file + os.replace), or by another writer
            fn = os.path.join(scratch, "trusted.root.json")
            mode = ["lib_write", "atomic_replace", "external_write"][(i + len(case["steps"])) % 3]
            rec.hist("persist_mode", mode)
            if mode == "lib_write":
                w = boundary.call(lib, C.write_metadata_to_file, client, fn)
            elif mode == "atomic_replace":
                w = boundary.call(lib, C.write_metadata_to_file, client, fn + ".tmp")
                if w.accepted:
                    os.replace(fn + ".tmp", fn)
            else:
                from ..refs import canonjson as _cj

                with open(fn, "wb") as fh:
                    fh.write(_cj.canon(client))
                w = boundary.call(lib, C.load_metadata_from_file, fn)  # any successful call
            l = boundary.call(lib, C.load_metadata_from_file, fn) if w.accepted else w
            rec.count("persist_cycles")
            if not l.accepted or boundary.value_fingerprint(l.value) != boundary.value_fingerprint(client):
                rec.violation("persistence/trusted-root-reloads-differently",
                              "persisting the trusted root between steps changed it (%s)" % l.brief(), case)
                return
            client = l.value
        mv, failed = models.root_verdict(model, offer_m)
        before = boundary.fingerprint(client)
        if st["persist"] and i % 2 == 1 and getattr(lib, "cli", None) is not None:
            # a client that keeps its roots in files and asks the command-line tool: exit status 0 <=> replace the trusted root
            fn_t, fn_u = os.path.join(scratch, "cli.trusted.json"), os.path.join(scratch, "cli.offer.json")
            from ..refs import canonjson as _cj
            import json as _json

            try:
                with open(fn_t, "wb") as fh:
                    fh.write(_cj.canon(client))
                with open(fn_u, "wb") as fh:
                    fh.write(_json.dumps(offer_c).encode("utf-8"))
                usable = isinstance(offer_c, dict) and isinstance(offer_c.get("signed"), dict) and offer_c["signed"].get("type") == "root"
            except Exception:
                usable = False
            if usable:
                rec.count("verdicts_through_cli")
                out = boundary.call(lib, lib.cli.cli, ["verify-metadata", fn_t, fn_u])
                if out.accepted and out.value != 0:
                    out.kind, out.cls, out.family = "raise", "exit-%r" % (out.value,), "CLI-nonzero"
            else:
                out = boundary.call(lib, A.verify_root, client, offer_c)
        else:
            out = boundary.call(lib, A.verify_root, client, offer_c)
        rec.count("offers")
        rec.hist("offer_class", st["class"])
        if boundary.fingerprint(client) != before:
            rec.violation("purity/verify_root/trusted-root-mutated", "verify_root modified the trusted root", case)
        log.append({"trusted": copy.deepcopy(client), "offer": copy.deepcopy(st["offer"]), "accepted": out.accepted,
                    "cls": None if (out.cls or "").startswith("exit-") else out.cls, "class": st["class"]})
        if mv.v == models.GREY:
            rec.count("grey_steps")
            return  # statements silent: stop the history here
        if out.accepted != (mv.v == models.ACCEPT):
            kind = "unsound-accept" if out.accepted else "false-reject"
            rec.violation("%s/history-step/class=%s/failed=%s" % (kind, st["class"], ",".join(sorted(failed)) or "none"),
                          "step %d (%s): library %s, model %s (%s)" % (i, st["class"], out.brief(), mv.v, mv.why), case)
            return
        if st["adversarial"] and out.accepted:
            rec.violation("adversary-accepted/class=" + st["class"],
                          "offer authored without a threshold of the current root keys was accepted", case)
            return
        if out.accepted:
            n_acc += 1
            # chain invariant: link signed by the threshold in force at the previous link
            d = client["signed"]["delegations"]["root"]
            link = models.threshold_verdict(offer_c, d["pubkeys"], d["threshold"], True)
            if link.v == models.REJECT or offer_c["signed"]["version"] != client["signed"]["version"] + 1:
                rec.violation("chain-invariant/link-not-signed-by-previous-threshold",
                              "accepted link fails reference re-verification under the previous link", case)
                return
            client, model = offer_c, offer_m
            rec.count("accepted_links")
        else:
            n_rej += 1
            rec.count("rejected_offers")
            if st["adversarial"]:
                rec.count("adversarial_rejected:" + st["class"])
    if client["signed"]["version"] != v0 + n_acc:
        rec.violation("chain-invariant/version-not-initial-plus-accepted",
                      "trusted version %r != %r + %d" % (client["signed"]["version"], v0, n_acc), case)
    rec.case("|".join(classes), nontrivial=n_acc >= 1 and n_rej >= 1)
    # history independence: every pair again, shuffled, in a fresh module instance
    if fresh is not None:
        order = list(range(len(log)))
        rng.shuffle(order)
        for j in order:
            e = log[j]
            o2 = boundary.call(fresh, fresh.authentication.verify_root, copy.deepcopy(e["trusted"]), copy.deepcopy(e["offer"]))
            rec.count("independence_reevaluations")
            if o2.accepted != e["accepted"] or (e["cls"] is not None and o2.cls != e["cls"]):
                rec.violation("history-dependence/verify_root/verdict-differs-in-fresh-instance",
                              "step %d (%s): in history %s, alone in fresh instance %s"
                              % (j, e["class"], "accept" if e["accepted"] else e["cls"], o2.brief()), case)
                break
        # and again in the SAME instance, reversed order (state carried forward would show)
        for e in reversed(log):
            o3 = boundary.call(lib, A.verify_root, copy.deepcopy(e["trusted"]), copy.deepcopy(e["offer"]))
            if o3.accepted != e["accepted"] or (e["cls"] is not None and o3.cls != e["cls"]):
                rec.violation("history-dependence/verify_root/verdict-differs-when-repeated",
                              "(%s): first %s, repeated later %s" % (e["class"], "accept" if e["accepted"] else e["cls"], o3.brief()), case)
                break


def run_shard(spec, rec, lib):
    rng = random.Random(spec["seed"])
    fresh = vlib.fresh_instance()
    for i in range(spec["count"]):
        case = gen_history(rng, spec["maxlen"])
        run_history(case, rec, lib, spec["scratch"], rng, fresh)
        if i < 1:
            rec.sample({"history": [s["class"] for s in case["steps"]],
                        "initial": rootchain.brief({"trusted": case["initial"], "new": case["initial"]})["trusted"]})


def finish(merged, tier, seed):
    if merged.counters.get("accepted_links", 0) == 0:
        merged.inconclusive_because("no history contained an accepted link")
    if merged.counters.get("independence_reevaluations", 0) == 0:
        merged.inconclusive_because("fresh-instance differential observed nothing")


def replay(case, rec, lib):
    import tempfile
    import shutil

    d = tempfile.mkdtemp(prefix="vf_c04_")
    try:
        run_history(case, rec, lib, d, random.Random(1), vlib.fresh_instance())
    finally:
        shutil.rmtree(d, ignore_errors=True)
