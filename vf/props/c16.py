"""C16 - metadata constructors emit only well-formed, faithful metadata."""
import copy
import datetime
import time
import random
import re

from ..gen import caselang, keys as gkeys, metadata as gmd, palette
from ..monitors import boundary
from ..refs import canonjson, openpgp, schema

RULE = (
    "argument tuples of build_delegating_metadata / build_root_metadata: valid ones over key sets (0-5 keys), thresholds (<= and > "
    "key count), versions up to 2^64, explicit and default timestamps; invalid ones by replacing each argument with each palette "
    "value. Raise => TypeError/ValueError. Return => wrapped result passes the library checker (supported types) and the reference "
    "schema; type/version/timestamp/expiration/delegations equal the arguments; spec version equals the library constant; root "
    "output delegates root and key_mgr; defaults: expiration - timestamp within 365 d +- 5 s and timestamp within 120 s of harness "
    "UTC, under TZ in {UTC, Pacific/Kiritimati, America/Los_Angeles}; builder-made root vN, vN+1, vN+2 threshold-signed verify as "
    "a chain. distinct = (builder, corrupted argument, value fingerprint); non-trivial = all."
)
RULE_ADDENDUM = (
    "Additional: default times bracketed by the clock within 2 s (or midnight of the day), also after rejected calls followed by a real pause, and with builders called from several threads; 'about one year' = 363..368 days."
)
RULE = RULE + " " + RULE_ADDENDUM
LIMITS = ["wall-clock windows are generous (only separate UTC from local time and 31-day from 365-day defaults)"]
ASSUMPTIONS = ["reference schema; harness clock"]

TZS = ["UTC", "Pacific/Kiritimati", "America/Los_Angeles"]
DATE_RX = re.compile(r"\A\d{4}-\d{2}-\d{2}T\d{2}:\d{2}:\d{2}Z\Z")


def plan(tier, seed):
    q = tier == "quick"
    specs = []
    for tz in TZS:
        for _ in range(2 if q else 5):
            specs.append({"kind": "tuples", "count": 600 if q else 8000, "env": {"TZ": tz}, "tz": tz})
    specs.append({"kind": "corrupt", "env": {"TZ": "UTC"}, "tz": "UTC"})
    for j, tz in enumerate(["UTC", "Asia/Tokyo"] if q else ["UTC", "Asia/Tokyo", "America/Los_Angeles", "Pacific/Kiritimati"]):
        specs.append({"kind": "history", "env": {"TZ": tz}, "tz": tz, "rounds": 2 if q else 12})
    for T in ([4] if q else [2, 4, 8, 16]):
        specs.append({"kind": "threads", "threads": T, "count": 300 if q else 4000, "env": {"TZ": "Asia/Tokyo"}, "tz": "Asia/Tokyo"})
    for tz in (["UTC", "America/Los_Angeles"] if q else TZS + ["Asia/Tokyo"]):
        specs.append({"kind": "virtual_clock", "env": {"TZ": tz}, "tz": tz, "random_instants": 40 if q else 1500})
    return specs


TOL = 2


def parse(ts):
    return datetime.datetime.strptime(ts, "%Y-%m-%dT%H:%M:%SZ").replace(tzinfo=datetime.timezone.utc)


_NOT_GIVEN = object()


def check_result(kind, args_case, kwargs_case, out, rec, lib, tz, t_before, t_after):
    """postconditions on a returned metadata object"""
    C = lib.common
    case = {"kind": "build", "builder": kind, "args": args_case, "kwargs": kwargs_case, "tz": tz}
    md = out.value
    if type(md) is not dict:
        rec.violation("builder/%s/returns-non-dict" % kind, "returned %r" % type(md), case)
        return
    kw = caselang.dec(kwargs_case, lib)
    if kind == "delegating":
        want_type = kw.get("metadata_type")
        want_version = kw.get("version", _NOT_GIVEN)  # "carries the GIVEN version": an omitted version has no stated value
        want_ts, want_exp = kw.get("timestamp"), kw.get("expiration")
        want_dels = kw.get("delegations") if kw.get("delegations") is not None else {}
    else:
        want_type = "root"
        want_version = kw.get("root_version")
        want_ts, want_exp = kw.get("root_timestamp"), kw.get("root_expiration")
        want_dels = {"root": {"pubkeys": kw.get("root_pubkeys"), "threshold": kw.get("root_threshold")},
                     "key_mgr": {"pubkeys": kw.get("key_mgr_pubkeys"), "threshold": kw.get("key_mgr_threshold")}}
    vf = boundary.value_fingerprint

    def same(a, b):
        try:
            return boundary.fingerprint(a) == boundary.fingerprint(b) or a == b and type(a) is type(b)
        except Exception:
            return False

    if not same(md.get("type"), want_type):
        rec.violation("builder/%s/type-not-verbatim" % kind, "type %r, argument %r" % (md.get("type"), want_type), case)
    if want_version is _NOT_GIVEN:
        rec.count("version_not_given")
    elif not same(md.get("version"), want_version):
        rec.violation("builder/%s/version-not-verbatim" % kind, "version %r, argument %r" % (md.get("version"), want_version), case)
    if not same(md.get("delegations"), want_dels):
        rec.violation("builder/%s/delegations-not-verbatim" % kind, "delegations differ from the arguments", case)
    if want_ts is not None and not same(md.get("timestamp"), want_ts):
        rec.violation("builder/%s/timestamp-not-verbatim" % kind, "timestamp %r, argument %r" % (md.get("timestamp"), want_ts), case)
    if want_exp is not None and not same(md.get("expiration"), want_exp):
        rec.violation("builder/%s/expiration-not-verbatim" % kind, "expiration %r, argument %r" % (md.get("expiration"), want_exp), case)
    if md.get("metadata_spec_version") != getattr(C, "SECURITY_METADATA_SPEC_VERSION", None):
        rec.violation("builder/%s/spec-version" % kind, "spec version %r" % (md.get("metadata_spec_version"),), case)
    if kind == "root":
        d = md.get("delegations")
        if not (isinstance(d, dict) and "root" in d and "key_mgr" in d):
            rec.violation("builder/root/missing-root-or-key_mgr-delegation", "root output delegates %r" % (list(d) if isinstance(d, dict) else d), case)
    # defaults
    ts, exp = md.get("timestamp"), md.get("expiration")
    if want_ts is None:
        rec.count("default_timestamp_checks")
        if not (isinstance(ts, str) and DATE_RX.match(ts)):
            rec.violation("builder/%s/default-timestamp-malformed" % kind, "default timestamp %r" % (ts,), case)
        else:
            dt = parse(ts)
            # the library reads the same system clock between t_before (floored to the second) and t_after; 2 s of slack
            midnight = t_before.replace(hour=0, minute=0, second=0, microsecond=0)
            if dt in (midnight, midnight - datetime.timedelta(days=1)) and dt.hour == 0:
                # "00:00:00 of the current / a past day" - the less revealing default the library's own comments propose; the statement
                # does not say a default timestamp is the current second
                rec.count("default_timestamp_is_midnight_variant")
            elif not (t_before - datetime.timedelta(seconds=TOL) <= dt <= t_after + datetime.timedelta(seconds=TOL)):
                rec.violation("builder/%s/default-timestamp-not-utc-now/tz=%s" % (kind, "UTC" if tz == "UTC" else "nonUTC"),
                              "default timestamp %s is not within %d s of UTC now %s (TZ=%s)" % (ts, TOL, t_before.isoformat(), tz), case)
    if want_exp is None:
        rec.count("default_expiration_checks")
        if not (isinstance(exp, str) and DATE_RX.match(exp)):
            rec.violation("builder/%s/default-expiration-malformed" % kind, "default expiration %r" % (exp,), case)
        else:
            base = parse(ts) if (want_ts is None and isinstance(ts, str) and DATE_RX.match(ts)) else None
            if base is not None:
                delta = (parse(exp) - base).total_seconds()
                if not ((365 - 2) * 86400 <= delta <= (366 + 2) * 86400):  # "about one year later"
                    rec.violation("builder/%s/default-expiry-not-one-year" % kind,
                                  "default expiration - timestamp = %.0f s (%.1f days)" % (delta, delta / 86400), case)
                if delta <= 0:
                    rec.violation("builder/%s/default-expiry-not-after-timestamp" % kind, "expires at or before its timestamp", case)
            else:
                # explicit timestamp, default expiration: about one year from now
                delta = (parse(exp) - t_before).total_seconds()
                if not ((365 - 2) * 86400 <= delta <= (366 + 2) * 86400 + (t_after - t_before).total_seconds()):
                    rec.violation("builder/%s/default-expiry-not-one-year" % kind,
                                  "default expiration is %.1f days from now" % (delta / 86400), case)
    # checker + schema on the wrapped result
    env = {"signatures": {}, "signed": md}
    s = schema.delegating_metadata(env)
    supported = md.get("type") in ("root", "key_mgr") if isinstance(md.get("type"), str) else False
    rec.hist("result_schema", s if supported else "unsupported-type")
    if supported:
        ck = boundary.call(lib, C.checkformat_delegating_metadata, copy.deepcopy(env))
        rec.count("checker_on_output")
        if not ck.accepted:
            rec.violation(boundary.mechanism("builder-output", "checkformat_delegating_metadata[%s]" % kind, "accept", ck),
                          "builder returned metadata its own checker rejects: %s" % (ck.msg or "")[:120], case)
        if s == schema.R:
            rec.violation("builder/%s/output-outside-schema" % kind, "builder returned metadata outside the documented schema", case)


def call_builder(kind, kwargs_case, rec, lib, tz, label):
    M = lib.metadata_construction
    fn = M.build_delegating_metadata if kind == "delegating" else M.build_root_metadata
    kw = caselang.dec(kwargs_case, lib)
    before_fp = boundary.fingerprint(kw)
    m0 = time.monotonic()
    w0 = datetime.datetime.now(datetime.timezone.utc)
    t_before = w0.replace(microsecond=0)
    out = boundary.call(lib, fn, **kw)
    t_after = datetime.datetime.now(datetime.timezone.utc)
    if abs((t_after - w0).total_seconds() - (time.monotonic() - m0)) > 0.5:
        rec.count("wall_clock_stepped_during_call")  # the system clock was set during the call: times not judged
        return out
    rec.case("%s|%s|%s" % (kind, label, boundary.fingerprint(kw)))
    rec.hist("builder_outcome", "%s:%s" % (kind, "return" if out.accepted else out.family))
    case = {"kind": "build", "builder": kind, "kwargs": kwargs_case, "tz": tz}
    if boundary.fingerprint(kw) != before_fp:
        rec.violation("purity/builder-%s/arguments-mutated" % kind, "builder modified its arguments", case)
    if not out.accepted:
        if out.family not in ("TypeError", "ValueError"):
            rec.violation(boundary.mechanism("undocumented-error", "build_%s_metadata" % kind, "TypeError|ValueError", out),
                          "builder raised %s: %s" % (out.cls, (out.msg or "")[:120]), case)
        return out
    check_result(kind, None, kwargs_case, out, rec, lib, tz, t_before, t_after)
    return out


def valid_kwargs(kind, rng):
    U = [gkeys.key(i) for i in range(8)]
    if kind == "delegating":
        dels = {}
        for j in range(rng.randint(0, 4)):
            ks = rng.sample(U, rng.randint(0, 5))
            dels[rng.choice(["root", "key_mgr", "pkg_mgr", "", "x%d" % j, "é"])] = {
                "pubkeys": [k.hex for k in ks], "threshold": rng.choice([1, max(1, len(ks)), len(ks) + 2, 2**64])}
        kw = {"metadata_type": rng.choice(["root", "key_mgr", "key_mgr", "pkg_mgr", "other"])}
        if rng.random() < 0.8:
            kw["delegations"] = dels
        if rng.random() < 0.7:
            kw["version"] = rng.choice([1, 2, 41, 2**31, 2**64, 10**30])
        if rng.random() < 0.4:
            kw["timestamp"] = rng.choice(["2021-01-01T00:00:00Z", "1999-12-31T23:59:59Z", "2024-02-29T12:00:00Z"])
        if rng.random() < 0.4:
            kw["expiration"] = rng.choice(["2031-01-01T00:00:00Z", "2000-01-01T00:00:00Z", "9999-12-31T23:59:59Z"])
        return kw
    rk = rng.sample(U, rng.randint(0, 4))
    kk = rng.sample(U, rng.randint(0, 3))
    kw = {"root_version": rng.choice([1, 2, 3, 2**31, 2**64]), "root_pubkeys": [k.hex for k in rk],
          "root_threshold": rng.choice([1, max(1, len(rk)), len(rk) + 1]),
          "key_mgr_pubkeys": [k.hex for k in kk], "key_mgr_threshold": rng.choice([1, max(1, len(kk))])}
    if rng.random() < 0.4:
        kw["root_timestamp"] = "2021-01-01T00:00:00Z"
    if rng.random() < 0.4:
        kw["root_expiration"] = "2031-01-01T00:00:00Z"
    return kw


def chain_check(rng, rec, lib, tz):
    """root vN, vN+1, vN+2 built by the builder, threshold-signed (OpenPGP-wrapped), verify as a chain"""
    M, A = lib.metadata_construction, lib.authentication
    U = [gkeys.key(i) for i in range(8)]
    v = rng.choice([1, 2, 7, 2**31])
    sets = []
    for _ in range(3):
        ks = rng.sample(U, rng.randint(1, 3))
        sets.append((ks, rng.randint(1, len(ks))))
    envs = []
    for i, (ks, t) in enumerate(sets):
        o = boundary.call(lib, M.build_root_metadata, v + i, [k.hex for k in ks], t, [U[7].hex], 1)
        if not o.accepted:
            rec.violation(boundary.mechanism("chain", "build_root_metadata", "return", o), "builder rejected valid root arguments", {"kind": "chain"})
            return
        envs.append({"signatures": {}, "signed": o.value})
    for i in (1, 2):
        data = canonjson.canon(envs[i]["signed"])
        signers = {k.hex: k for k in sets[i - 1][0][: sets[i - 1][1]] + sets[i][0][: sets[i][1]]}
        for k in signers.values():
            hdr = openpgp.gnupg_style_header(rng.randbytes(20), rng.randrange(2**32))
            envs[i]["signatures"][k.hex] = openpgp.make_entry(k.seed, data, hdr)
    for i in (1, 2):
        o = boundary.call(lib, A.verify_root, copy.deepcopy(envs[i - 1]), copy.deepcopy(envs[i]))
        rec.count("chain_links_verified")
        rec.case("chain|%d|%s" % (i, tz))
        if not o.accepted:
            rec.violation(boundary.mechanism("chain", "verify_root[builder-made]", "accept", o),
                          "builder-made, threshold-signed root v%d does not verify as successor of v%d: %s" % (v + i, v + i - 1, (o.msg or "")[:120]),
                          {"kind": "chain"})


def run_tuples(spec, rec, lib):
    rng = random.Random(spec["seed"])
    tz = spec["tz"]
    for i in range(spec["count"]):
        kind = rng.choice(["delegating", "root"])
        kw = valid_kwargs(kind, rng)
        call_builder(kind, kw, rec, lib, tz, "valid")
        if i % 6 == 0:
            chain_check(rng, rec, lib, tz)
        if i < 1:
            rec.sample({"builder": kind, "kwargs": kw, "TZ": tz})


def run_corrupt(spec, rec, lib):
    rng = random.Random(spec["seed"])
    tz = spec["tz"]
    n = 0
    for kind, full in (("delegating", {"metadata_type": "key_mgr", "delegations": {"pkg_mgr": {"pubkeys": [palette.HK], "threshold": 1}},
                                       "version": 3, "timestamp": "2021-01-01T00:00:00Z", "expiration": "2031-01-01T00:00:00Z"}),
                       ("root", {"root_version": 2, "root_pubkeys": [palette.HK], "root_threshold": 1, "key_mgr_pubkeys": [palette.HK2],
                                 "key_mgr_threshold": 1, "root_timestamp": "2021-01-01T00:00:00Z", "root_expiration": "2031-01-01T00:00:00Z"})):
        for arg in full:
            for v in palette.ALL:
                kw = dict(copy.deepcopy(full))
                kw[arg] = v
                call_builder(kind, kw, rec, lib, tz, "corrupt:" + arg)
                n += 1
        # corrupt inside delegations
        for v in palette.ALL:
            if kind == "delegating":
                kw = copy.deepcopy(full)
                kw["delegations"]["pkg_mgr"]["threshold"] = v
                call_builder(kind, kw, rec, lib, tz, "corrupt:delegation.threshold")
                kw = copy.deepcopy(full)
                kw["delegations"]["pkg_mgr"]["pubkeys"] = v
                call_builder(kind, kw, rec, lib, tz, "corrupt:delegation.pubkeys")
                kw = copy.deepcopy(full)
                kw["delegations"]["pkg_mgr"] = v
                call_builder(kind, kw, rec, lib, tz, "corrupt:delegation")
                n += 3
    rec.count("corrupted_argument_calls", n)
    rec.sample({"corrupt": "each argument replaced by each of %d palette values" % len(palette.ALL)})


def run_history(spec, rec, lib):
    """default times are read from the clock at EVERY call: a mixture of rejected and successful calls of both builders
    (explicit and default times), then real time passes, then default-time calls are judged against the clock again"""
    rng = random.Random(spec["seed"])
    tz = spec["tz"]
    M = lib.metadata_construction
    bad_root = [dict(root_version=0), dict(root_threshold=0), dict(root_pubkeys=["zz"]), dict(key_mgr_threshold="1"), dict(root_timestamp="yesterday"),
                dict(root_expiration=5), dict(key_mgr_pubkeys=None), dict(root_version="1")]
    bad_del = [dict(metadata_type=5), dict(delegations={"x": 1}), dict(timestamp="now"), dict(expiration="never"), dict(version=0)]
    rounds = spec.get("rounds", 2)
    for rnd in range(rounds):
        order = [("root", b) for b in bad_root] + [("delegating", b) for b in bad_del] + [("root", {}), ("delegating", {})] * 2
        rng.shuffle(order)
        for kind, over in order[: rng.randint(3, len(order))]:
            kw = valid_kwargs(kind, rng)
            if rng.random() < 0.5:
                for k in ("timestamp", "expiration", "root_timestamp", "root_expiration"):
                    kw.pop(k, None)
            kw.update(over)
            call_builder(kind, kw, rec, lib, tz, "history:phase1")
        rec.count("history_rounds")
        time.sleep(TOL + 1.2)
        for kind in ("root", "delegating", "root", "delegating"):
            kw = valid_kwargs(kind, rng)
            for k in ("timestamp", "expiration", "root_timestamp", "root_expiration"):
                kw.pop(k, None)
            call_builder(kind, kw, rec, lib, tz, "history:after-%.1fs" % (TOL + 1.2))
            rec.count("default_time_calls_after_earlier_calls_and_a_pause")


def run_threads(spec, rec, lib):
    """builders called from several threads at once (valid and rejected argument tuples mixed): every result carries the
    arguments of ITS call verbatim and default times read from the clock during the workload"""
    from ..engines import threads

    rng = random.Random(spec["seed"])
    tz = spec["tz"]
    M = lib.metadata_construction
    jobs, meta = [], []
    for i in range(spec["count"]):
        kind = rng.choice(["delegating", "root"])
        kwc = valid_kwargs(kind, rng)
        if rng.random() < 0.2:
            kwc.update(rng.choice([dict(root_version=0), dict(root_threshold=0), dict(root_timestamp="yesterday")] if kind == "root"
                                  else [dict(metadata_type=5), dict(timestamp="now"), dict(version=0)]))
        fn = M.build_delegating_metadata if kind == "delegating" else M.build_root_metadata
        jobs.append((fn, (), caselang.dec(kwc, lib)))
        meta.append((kind, kwc))
    t0 = datetime.datetime.now(datetime.timezone.utc).replace(microsecond=0)
    res = threads.run_calls(lib, jobs, spec["threads"], rec, spec["seed"], prob=0.2, label="builders")
    t1 = datetime.datetime.now(datetime.timezone.utc)
    if res is None:
        return
    for (kind, kwc), out in zip(meta, res):
        if out is None:
            continue
        rec.case("thr|%s|%s" % (kind, boundary.fingerprint(kwc)))
        if out.accepted:
            check_result(kind, None, kwc, out, rec, lib, tz, t0, t1)


INSTANTS = [
    # (instant, why) - readings a real clock offers about once in a million / once a year / once in four years
    ("2026-10-03T12:34:56.000000", "exactly on a whole second"),
    ("2026-10-03T12:34:56.999999", "one microsecond before the next second"),
    ("2026-10-03T12:34:56.500000", "half a second"),
    ("2026-10-03T12:34:56.000001", "one microsecond after a whole second"),
    ("2026-10-03T00:00:00.000000", "midnight exactly"),
    ("2026-10-03T10:00:00.000000", "whole hour (trailing zeros)"),
    ("2026-10-10T10:10:10.100000", "tenths"),
    ("2026-12-31T23:59:59.999999", "one microsecond before the year ends"),
    ("2027-01-01T00:00:00.000000", "the year begins"),
    ("2028-02-29T12:00:00.000000", "leap day"),
    ("2027-02-28T23:59:59.999999", "before a leap year's February"),
    ("2027-03-01T00:00:00.000000", "the year ahead contains a leap day"),
    ("1999-12-31T23:59:59.000000", "century boundary"),
    ("2038-01-19T03:14:07.000000", "2^31 - 1 seconds"),
    ("2038-01-19T03:14:08.000000", "2^31 seconds"),
    ("2001-09-09T01:46:40.000000", "10^9 seconds"),
    ("2026-03-08T09:59:59.999999", "just before a US daylight-saving switch (UTC)"),
    ("2026-11-01T09:00:00.000000", "US daylight-saving ends (UTC)"),
    ("1970-01-02T00:00:00.000000", "one day after the epoch"),
    ("2106-02-07T06:28:15.000000", "2^32 - 1 seconds"),
    ("9000-01-01T00:00:00.000000", "far future"),
]


def run_virtual_clock(spec, rec, lib):
    """default times under a virtual clock put on chosen instants: the default timestamp is that instant (to the second),
    well-formed, and the default expiry about a year after it"""
    from ..monitors import vclock

    rng = random.Random(spec["seed"])
    tz = spec["tz"]
    M = lib.metadata_construction
    instants = [(datetime.datetime.strptime(t, "%Y-%m-%dT%H:%M:%S.%f").replace(tzinfo=datetime.timezone.utc), why) for t, why in INSTANTS]
    for _ in range(spec.get("random_instants", 40)):
        base = datetime.datetime(rng.randint(1971, 2200), rng.randint(1, 12), rng.randint(1, 28), rng.randrange(24), rng.randrange(60), rng.randrange(60),
                                 rng.choice([0, 0, 0, 1, 999999, 500000, rng.randrange(10**6), rng.randrange(10) * 100000, rng.randrange(1000) * 1000]),
                                 tzinfo=datetime.timezone.utc)
        instants.append((base, "random"))
    total_reads = 0
    for instant, why in instants:
        for kind in ("delegating", "root"):
            kwc = valid_kwargs(kind, rng)
            drop = rng.choice(["both", "both", "timestamp", "expiration"])
            for k in ("timestamp", "root_timestamp"):
                if drop in ("both", "timestamp"):
                    kwc.pop(k, None)
            for k in ("expiration", "root_expiration"):
                if drop in ("both", "expiration"):
                    kwc.pop(k, None)
            fn = M.build_delegating_metadata if kind == "delegating" else M.build_root_metadata
            kw = caselang.dec(kwc, lib)
            with vclock.frozen(lib, instant) as clock:
                out = boundary.call(lib, fn, **kw)
            total_reads += clock.reads
            case = {"kind": "vclock", "builder": kind, "kwargs": kwc, "tz": tz, "instant": instant.strftime("%Y-%m-%dT%H:%M:%S.%f")}
            rec.case("vclock|%s|%s|%s" % (kind, case["instant"], drop))
            rec.hist("virtual_clock_instants", why)
            if clock.reads == 0:
                rec.count("virtual_clock_not_consulted")
                continue
            rec.count("virtual_clock_builds")
            if not out.accepted:
                # valid arguments: the clock reading must not make the builder fail (OverflowError near year 9999 excepted)
                if instant.year < 9000:
                    rec.violation(boundary.mechanism("virtual-clock", "build_%s_metadata" % kind, "return", out),
                                  "builder given valid arguments raised %s when the clock read %s (%s): %s" % (out.cls, case["instant"], why, (out.msg or "")[:100]), case)
                continue
            floor = instant.replace(microsecond=0)
            check_result(kind, None, kwc, out, rec, lib, tz, floor, floor + datetime.timedelta(seconds=1))
    rec.count("virtual_clock_reads", total_reads)
    if total_reads == 0:
        rec.inconclusive_because("the library never consulted the virtual clock (it reads time through a name the stand-in does not cover)")
    rec.sample({"virtual_clock": "%d instants x 2 builders; e.g. %s" % (len(instants), INSTANTS[0][0])})


def run_shard(spec, rec, lib):
    if spec["kind"] == "threads":
        return run_threads(spec, rec, lib)
    if spec["kind"] == "virtual_clock":
        return run_virtual_clock(spec, rec, lib)
    {"tuples": run_tuples, "corrupt": run_corrupt, "history": run_history}[spec["kind"]](spec, rec, lib)


def finish(merged, tier, seed):
    for need in ("default_timestamp_checks", "default_expiration_checks", "chain_links_verified", "checker_on_output"):
        if merged.counters.get(need, 0) == 0:
            merged.inconclusive_because("monitor %s observed nothing" % need)


def replay(case, rec, lib):
    if case.get("kind") == "vclock":
        from ..monitors import vclock

        M = lib.metadata_construction
        kind = case["builder"]
        instant = datetime.datetime.strptime(case["instant"], "%Y-%m-%dT%H:%M:%S.%f").replace(tzinfo=datetime.timezone.utc)
        with vclock.frozen(lib, instant):
            out = boundary.call(lib, M.build_delegating_metadata if kind == "delegating" else M.build_root_metadata, **caselang.dec(case["kwargs"], lib))
        if out.accepted:
            floor = instant.replace(microsecond=0)
            check_result(kind, None, case["kwargs"], out, rec, lib, case.get("tz", "UTC"), floor, floor + datetime.timedelta(seconds=1))
        else:
            rec.violation(boundary.mechanism("virtual-clock", "build_%s_metadata" % kind, "return", out), "builder raised under the virtual clock", case)
    elif case.get("kind") == "build":
        call_builder(case["builder"], case["kwargs"], rec, lib, case.get("tz", "UTC"), "replay")
    else:
        chain_check(random.Random(1), rec, lib, "UTC")
