"""C09 - sign-then-verify round trip, signer binding, determinism, order independence."""
import copy
import itertools
import random

from ..engines import noise
from ..gen import entries as gentries, jsonvals, keys as gkeys
from ..monitors import boundary, probes
from ..refs import canonjson, ed25519, models

RULE = (
    "payload x ordered list of 1-5 signing keys x pre-existing entries; after each sign_signable: payload fingerprint unchanged, "
    "signer's entry == {signature: hex(RFC8032-sign(seed, reference-canonical(payload)))}, other entries untouched, re-signing is a no-op; "
    "all (<=24) signing orders give the same envelope; verify_signable accepts t=1..k and raises SignatureError at t=k+1; a "
    "value-changing edit at a random path makes every t fail, a value-preserving re-ordering does not. distinct = (payload bytes, "
    "signer set, pre-existing classes); non-trivial = >= 2 signers or a container payload."
)
RULE_ADDENDUM = (
    'Additional: threads signing different envelopes with different keys followed by sequential signing with the same key objects; 65..140 signers on one envelope (forward and reverse order, foreign entries first), thresholds up to their number.'
)
RULE = RULE + " " + RULE_ADDENDUM
LIMITS = ["payloads up to ~2 KB", "at most 5 signers per envelope"]
ASSUMPTIONS = ["reference ed25519 and canonical serializer"]


def plan(tier, seed):
    n = 1600 if tier == "quick" else 40000
    shards = 12 if tier == "quick" else 32
    specs = [{"kind": "sign", "count": n // shards} for _ in range(shards)]
    for T in ([4] if tier == "quick" else [2, 4, 8, 16]):
        specs.append({"kind": "threads", "threads": T, "count": 30 if tier == "quick" else 250})
    specs.append({"kind": "crowd", "count": 3 if tier == "quick" else 40})
    return specs


def edit_payload(v, rng):
    """returns a payload with a different JSON value"""
    paths = list(jsonvals.walk_paths(v))
    for _ in range(20):
        p = rng.choice(paths)
        old = jsonvals.get_path(v, p)
        r = rng.random()
        if r < 0.25 and type(old) is int and not isinstance(old, bool):
            new = rng.choice([float(old) if abs(old) < 2**53 else old + 1, str(old), old + 1])
        elif r < 0.35 and old is True:
            new = 1
        elif r < 0.45 and type(old) is str:
            new = old + rng.choice([" ", "\x00", "a", "́"])
        elif r < 0.6 and type(old) is dict:
            new = dict(old)
            new["added" + str(rng.randrange(10))] = None
        elif r < 0.7 and type(old) is list:
            new = list(old) + [None]
        elif r < 0.8 and p and type(jsonvals.get_path(v, p[:-1])) is dict:
            w = jsonvals.del_path(v, p)
            if boundary.value_fingerprint(w) != boundary.value_fingerprint(v):
                return w
            continue
        else:
            new = jsonvals.rand_scalar(rng)
        w = jsonvals.set_path(v, p, new)
        if boundary.value_fingerprint(w) != boundary.value_fingerprint(v):
            return w
    return [v, "edited"]


def inplace_edit(v, rng):
    """change something inside v without replacing v (prefers a deeply nested container)"""
    cur = v
    for _ in range(8):
        if type(cur) is dict and cur:
            k = rng.choice(list(cur))
            if type(cur[k]) in (dict, list) and cur[k] and rng.random() < 0.8:
                cur = cur[k]
                continue
            cur[k] = ["edited", cur[k]]
            return
        if type(cur) is list and cur:
            i = rng.randrange(len(cur))
            if type(cur[i]) in (dict, list) and cur[i] and rng.random() < 0.8:
                cur = cur[i]
                continue
            cur[i] = ["edited", cur[i]]
            return
        break
    if type(cur) is dict:
        cur["edited"] = 1
    elif type(cur) is list:
        cur.append("edited")


def json_roundtrip(v):
    import json

    return json.loads(json.dumps(v))


def _container_ids(v, acc=None):
    acc = set() if acc is None else acc
    if type(v) is dict:
        acc.add(id(v))
        for x in v.values():
            _container_ids(x, acc)
    elif type(v) is list:
        acc.add(id(v))
        for x in v:
            _container_ids(x, acc)
    elif type(v) is tuple:
        for x in v:  # a tuple itself may be shared; the mutable containers reached through it may not
            _container_ids(x, acc)
    return acc


def check_case(case, rec, lib, sp=None):
    C, S, A = lib.common, lib.signing, lib.authentication
    if sp is not None:
        sp.events.clear()
    payload = case["payload"]
    ks = [gkeys.from_seed_hex(h) for h in case["seeds"]]
    pre = case.get("pre", [])
    refdata = canonjson.canon(payload)
    rec.case(
        "%s|%s|%s" % (refdata.hex()[:64] + str(len(refdata)), ",".join(sorted(case["seeds"])), len(pre)),
        nontrivial=len(ks) >= 2 or type(payload) in (dict, list),
    )
    rng = random.Random(case.get("rseed", 0))
    orig = copy.deepcopy(payload)
    o = boundary.call(lib, S.wrap_as_signable, payload)
    if not o.accepted:
        rec.violation(boundary.mechanism("wrap-raises", "wrap_as_signable", "envelope", o), "wrap raised on a JSON payload", case)
        return
    env = o.value
    vf = boundary.value_fingerprint
    if not (type(env) is dict and set(env) == {"signatures", "signed"} and env["signatures"] == {}
            and vf(env["signed"]) == vf(orig)):
        rec.violation("wrap/envelope-not-faithful", "wrap_as_signable did not return {signatures:{}, signed:<payload>}", case)
        return
    if _container_ids(payload) & _container_ids(env["signed"]):
        rec.violation("wrap/payload-aliased", "envelope shares (part of) the caller's payload object", case)
    if rng.random() < 0.15:
        # the same for a payload holding tuples (a supported serializable type): nothing mutable reached through a tuple is shared
        # with the caller's object or with another envelope wrapped from it
        tp = {"ranges": ([1, 2], [3, {"k": [4]}]), "p": copy.deepcopy(payload) if type(payload) in (dict, list) else [payload]}
        e1, e2 = boundary.call(lib, S.wrap_as_signable, tp), boundary.call(lib, S.wrap_as_signable, tp)
        rec.count("tuple_payload_wraps")
        if e1.accepted and e2.accepted:
            a, b, c = _container_ids(tp), _container_ids(e1.value["signed"]), _container_ids(e2.value["signed"])
            if (a & b) or (a & c) or (b & c):
                rec.violation("wrap/payload-aliased/through-tuple", "containers reached through a tuple are shared between the payload and / or two envelopes", case)
    for k, v in pre:
        env["signatures"][k] = copy.deepcopy(v)
    expected = {k: copy.deepcopy(v) for k, v in pre}
    payload_fp = boundary.fingerprint(env["signed"])

    def sign_with(e, key):
        priv = C.PrivateKey.from_bytes(key.seed)
        if sp is not None:
            priv = sp.wrap(priv)
        return boundary.call(lib, S.sign_signable, e, priv)

    for key in ks:
        o = sign_with(env, key)
        if not o.accepted:
            rec.violation(boundary.mechanism("sign-raises", "sign_signable", "return", o), "signing a valid envelope raised", case)
            return
        expected[key.hex] = {"signature": ed25519.sign(key.seed, refdata).hex()}
        rec.count("sign_steps")
        if boundary.fingerprint(env["signed"]) != payload_fp:
            rec.violation("sign/payload-changed", "sign_signable changed the signed part", case)
        got = env["signatures"]
        if set(got) != set(expected):
            rec.violation("sign/entry-set-differs", "entries after signing: %d, expected %d (other entries dropped or added)"
                          % (len(got), len(expected)), case)
            return
        for kk in expected:
            if boundary.fingerprint(got[kk]) != boundary.fingerprint(expected[kk]):
                if kk == key.hex:
                    rec.violation("sign/own-entry-not-rfc8032-over-canonical-bytes",
                                  "signer's entry is %r" % (got[kk],), case)
                else:
                    rec.violation("sign/other-entry-touched", "entry of another key changed by signing", case)
                return
        # idempotence
        snap = boundary.fingerprint(env)
        o = sign_with(env, key)
        if not o.accepted or boundary.fingerprint(env) != snap:
            rec.violation("sign/not-idempotent", "signing again with the same key changed the envelope", case)
            return
    if sp is not None:
        rec.count("probe_sign_events", len(sp.events))
        if sp.events and not any(ev["data"] == refdata for ev in sp.events):
            # the canonical payload bytes never reached the signing primitive (extra primitive calls over other data are only tallied)
            rec.violation("primitive-probe/sign_signable/signed-bytes-differ-from-reference",
                          "bytes handed to the signing primitive are not the canonical payload bytes", case)
        elif any(ev["data"] != refdata for ev in sp.events):
            rec.count("hint_probe_extra_sign_events_over_other_data")
        sp.events.clear()
    # order independence
    perms = list(itertools.permutations(range(len(ks)))) if len(ks) <= 4 else [
        tuple(rng.sample(range(len(ks)), len(ks))) for _ in range(24)]
    final = vf(env)
    for perm in perms[1:]:
        e2 = S.wrap_as_signable(payload)
        for k, v in pre:
            e2["signatures"][k] = copy.deepcopy(v)
        for i in perm:
            sign_with(e2, ks[i])
        rec.count("orders_compared")
        if vf(e2) != final:
            rec.violation("sign/order-dependent", "signing order %r gives a different envelope" % (perm,), case)
            break
    if sp is not None:
        sp.events.clear()
    # threshold boundary
    auth = [k.hex for k in ks]
    pre_valid = set()
    for k, v in pre:
        if k not in auth and models.entry_counts(k, v, refdata, False) == "yes":
            pre_valid.add(k)
    rng.shuffle(auth)
    kcount = len(set(auth))
    for t in range(1, kcount + 2):
        o = boundary.call(lib, A.verify_signable, env, auth, t)
        rec.count("threshold_checks")
        if t <= kcount and not o.accepted:
            rec.violation(boundary.mechanism("roundtrip", "verify_signable", "accept[t<=k]", o),
                          "%d signers, threshold %d rejected" % (kcount, t), case)
        if t == kcount + 1:
            if o.accepted:
                rec.violation("roundtrip/verify_signable/accepts-above-signer-count",
                              "%d signers, threshold %d accepted" % (kcount, t), case)
            elif o.family != "SignatureError":
                rec.violation(boundary.mechanism("error-family", "verify_signable", "SignatureError", o),
                              "threshold above signer count", case)
    # a key listed several times in the authorized list is still one signer
    dup_auth = auth + [auth[0]] * rng.randint(1, 2)
    rng.shuffle(dup_auth)
    o = boundary.call(lib, A.verify_signable, env, dup_auth, kcount + 1)
    rec.count("threshold_checks")
    if o.accepted:
        rec.violation("roundtrip/verify_signable/accepts-above-signer-count-with-duplicated-key-list",
                      "%d distinct signers, a key listed twice in the authorized list, threshold %d accepted" % (kcount, kcount + 1), case)
    o = boundary.call(lib, A.verify_signable, env, dup_auth, kcount)
    if not o.accepted:
        rec.violation(boundary.mechanism("roundtrip", "verify_signable", "accept[t=k, duplicated key list]", o), "duplicates in the key list made a sufficient envelope fail", case)
    # the signature map is not signed: anyone can file verbatim copies of the signers' entries under other labels - other spellings
    # and abbreviations of the signers' own keys.  However many labels, the number of signers is what it was
    e6 = {"signed": copy.deepcopy(env["signed"]), "signatures": copy.deepcopy(env["signatures"])}
    for k in ks:
        for sp_ in rng.sample(gkeys.respellings(k.hex), rng.randint(1, 5)):
            e6["signatures"].setdefault(sp_, copy.deepcopy(env["signatures"].get(k.hex)))
    items6 = list(e6["signatures"].items())
    rng.shuffle(items6)
    e6["signatures"] = dict(items6)
    o = boundary.call(lib, A.verify_signable, e6, auth, kcount + 1)
    rec.count("threshold_checks")
    rec.count("relabelled_copy_checks")
    if o.accepted:
        rec.violation("roundtrip/verify_signable/accepts-above-signer-count-with-relabelled-copies",
                      "%d signers, their entries copied under other labels of the same keys, threshold %d accepted" % (kcount, kcount + 1),
                      dict(case, relabelled=sorted(set(e6["signatures"]) - set(env["signatures"]))))
    # ... also when the caller's key list names those other labels too (a list that spells one key twice is malformed or, at most,
    # names one key): refused as a bad argument or for lack of signers - never accepted
    relabels = [k for k in e6["signatures"] if k not in env["signatures"]]
    o = boundary.call(lib, A.verify_signable, e6, auth + relabels, kcount + 1)
    rec.count("threshold_checks")
    if o.accepted:
        rec.violation("roundtrip/verify_signable/accepts-above-signer-count-with-relabelled-copies-also-listed-as-authorized",
                      "%d signers; their entries copied under other labels of the same keys and those labels listed as authorized too; threshold %d accepted"
                      % (kcount, kcount + 1), dict(case, relabelled=sorted(relabels)))
    # single-key authorized subsets
    one = rng.choice(ks)
    o = boundary.call(lib, A.verify_signable, env, [one.hex], 1)
    if not o.accepted:
        rec.violation(boundary.mechanism("roundtrip", "verify_signable", "accept[single]", o), "single signer rejected", case)
    # value-preserving re-ordering keeps verdicts
    e3 = {"signed": jsonvals.shuffled(env["signed"], rng), "signatures": dict(reversed(list(env["signatures"].items())))}
    o = boundary.call(lib, A.verify_signable, e3, auth, kcount)
    if not o.accepted:
        rec.violation(boundary.mechanism("roundtrip", "verify_signable", "accept[reordered]", o),
                      "re-ordering keys of the payload invalidated signatures", case)
    # IN-PLACE edit of the very object held in the envelope (possibly deep inside a nested container),
    # right after it has been signed and verified: every signature must stop counting, and a key that
    # signs afterwards must sign the edited content
    if type(env["signed"]) in (dict, list):
        e5 = {"signatures": copy.deepcopy(env["signatures"]), "signed": copy.deepcopy(env["signed"])}
        boundary.call(lib, A.verify_signable, e5, auth, 1)  # the library has just seen (and serialised) this object
        before_bytes = canonjson.canon(e5["signed"])
        inplace_edit(e5["signed"], rng)
        if canonjson.in_domain(e5["signed"]) and canonjson.canon(e5["signed"]) != before_bytes:
            o = boundary.call(lib, A.verify_signable, e5, auth, 1)
            rec.count("inplace_edit_checks")
            if o.accepted:
                rec.violation("roundtrip/verify_signable/accepts-after-inplace-payload-edit",
                              "signatures still count after the payload object was edited in place", dict(case, edited_inplace=e5["signed"]))
            k5 = ks[0]
            o = sign_with(e5, k5)
            want = {"signature": ed25519.sign(k5.seed, canonjson.canon(e5["signed"])).hex()}
            if o.accepted and e5["signatures"].get(k5.hex) != want:
                rec.violation("sign/signs-stale-bytes-after-inplace-edit",
                              "signing after an in-place edit produced a signature over other bytes than the current payload", dict(case, edited_inplace=e5["signed"]))
            elif o.accepted:
                o = boundary.call(lib, A.verify_signable, json_roundtrip(e5), [k5.hex], 1)
                if not o.accepted:
                    rec.violation(boundary.mechanism("roundtrip", "verify_signable", "accept[after-inplace-edit+resign]", o),
                                  "envelope re-signed after an in-place edit does not verify", case)
    # value-changing edit kills every signature
    edited = edit_payload(env["signed"], rng)
    e4 = {"signatures": copy.deepcopy(env["signatures"]), "signed": edited}
    if canonjson.in_domain(edited):
        o = boundary.call(lib, A.verify_signable, e4, auth, 1)
        rec.count("edit_checks")
        if o.accepted:
            rec.violation("roundtrip/verify_signable/accepts-after-payload-edit",
                          "signature still counts after the payload value changed", dict(case, edited=edited))
        elif o.family != "SignatureError":
            rec.violation(boundary.mechanism("error-family", "verify_signable", "SignatureError[edited]", o), "edited payload", case)


def gen_case(rng):
    payload = jsonvals.rand_payload(rng)
    r0 = rng.random()
    if r0 < 0.12:
        # a payload that is itself envelope-shaped (countersigning a signed document) - with / without inner signatures
        inner = jsonvals.rand_payload(rng)
        ik = gkeys.key(10 + rng.randrange(3))
        payload = {"signatures": rng.choice([{}, {ik.hex: {"signature": ed25519.sign(ik.seed, canonjson.canon(inner)).hex()}},
                                             {"junk": "x"}]), "signed": inner}
    elif r0 < 0.16:
        payload = rng.choice([{"signed": 1}, {"signatures": {}}, {"signatures": [], "signed": {}}, {"signatures": {}, "signed": {}, "x": 1},
                              {"signed": {"signatures": {}, "signed": None}, "signatures": {}}])
    nk = rng.choice([1, 1, 2, 2, 3, 3, 4, 5])
    idx = rng.sample(range(8), nk)
    seeds = [gkeys.key(i).seed.hex() for i in idx]
    pre = []
    r = rng.random()
    if r < 0.5:
        for _ in range(rng.randint(1, 3)):
            k, v = gentries.junk_pair(rng)
            pre.append([k, v])
    if rng.random() < 0.4:
        # an entry already filed under a signer's key, with extra fields / stale signature
        sk = gkeys.from_seed_hex(rng.choice(seeds))
        stale = {"signature": "%0128x" % rng.getrandbits(512)}
        if rng.random() < 0.6:
            stale["other_headers"] = "04001608"
        if rng.random() < 0.3:
            stale["see_also"] = "%040x" % rng.getrandbits(160)
        pre.append([sk.hex, stale])
    if rng.random() < 0.3:
        # a valid entry by a non-signing key: must survive untouched
        ok = gkeys.key(9)
        pre.append([ok.hex, {"signature": ed25519.sign(ok.seed, canonjson.canon(payload)).hex()}])
    # de-duplicate keys
    seen, pre2 = set(), []
    for k, v in pre:
        if k not in seen:
            seen.add(k)
            pre2.append([k, v])
    return {"kind": "sign", "payload": payload, "seeds": seeds, "pre": pre2, "rseed": rng.getrandbits(32)}


def run_threads(spec, rec, lib):
    """signer binding under schedules: threads signing DIFFERENT envelopes with DIFFERENT keys at the same time, followed by
    ordinary sequential signing with the same key objects; every envelope must carry exactly its signer's RFC 8032
    signature under its signer's public key, and verify with that key authorized"""
    import threading

    from ..monitors import sysmon

    rng = random.Random(spec["seed"])
    C, S, A = lib.common, lib.signing, lib.authentication
    T = spec["threads"]
    for rnd in range(spec["count"]):
        ks = [gkeys.key(rng.randrange(30)) for _ in range(T)]
        objs = [C.PrivateKey.from_bytes(k.seed) for k in ks]
        per = 3
        payloads = [[jsonvals.rand_payload(rng) for _ in range(per + 1)] for _ in range(T)]
        envs = [[None] * (per + 1) for _ in range(T)]
        errors = []
        start = threading.Barrier(T)

        def worker(t):
            try:
                start.wait()
                for j in range(per):
                    e = S.wrap_as_signable(payloads[t][j])
                    S.sign_signable(e, objs[t])
                    envs[t][j] = e
            except BaseException as ex:  # noqa: BLE001
                errors.append("%s: %s" % (type(ex).__name__, ex))

        inj = sysmon.YieldInjector(lib.pkg_dir, random.Random(spec["seed"] * 1000 + rnd), prob=0.3)
        with inj:
            ths = [threading.Thread(target=worker, args=(t,)) for t in range(T)]
            for th in ths:
                th.start()
            for th in ths:
                th.join(300)
        if any(th.is_alive() for th in ths):
            rec.inconclusive_because("signing thread workload did not finish")
            return
        rec.count("context_switches_inside_library", inj.switches)
        # afterwards, sequentially, with the same key objects (in a shuffled order)
        order = list(range(T))
        rng.shuffle(order)
        for t in order:
            try:
                e = S.wrap_as_signable(payloads[t][per])
                S.sign_signable(e, objs[t])
                envs[t][per] = e
            except Exception as ex:  # noqa: BLE001
                errors.append("%s: %s" % (type(ex).__name__, ex))
        case = {"kind": "sign_threads", "threads": T, "seeds": [k.seed.hex() for k in ks]}
        rec.case("sign-threads|%d|%d" % (T, rnd))
        if errors:
            rec.violation("sign-under-threads/sign_signable/raised", "signing separate envelopes in %d threads raised %s" % (T, errors[0][:200]), case)
            continue
        for t in range(T):
            for j in range(per + 1):
                e = envs[t][j]
                phase = "concurrent" if j < per else "sequential-after-threads"
                rec.count("threaded_signings")
                try:
                    data = canonjson.canon(payloads[t][j])
                except canonjson.Unsupported:
                    continue
                want = {ks[t].hex: {"signature": ed25519.sign(ks[t].seed, data).hex()}}
                if e is None or e.get("signatures") != want:
                    got = sorted((e or {}).get("signatures", {}))
                    rec.violation("signer-binding/sign_signable/under-threads/%s" % phase,
                                  "envelope signed with key %s.. (%s) carries entries under %s instead of exactly its signer's"
                                  % (ks[t].hex[:8], phase, [g[:8] for g in got]), dict(case, which=[t, j]))
                    break
                o = boundary.call(lib, A.verify_signable, e, [ks[t].hex], 1)
                if not o.accepted:
                    rec.violation(boundary.mechanism("sign-then-verify", "verify_signable[after threaded signing]", "accept", o),
                                  "envelope signed under threads does not verify with its signer authorized", dict(case, which=[t, j]))
                    break


def run_crowd(spec, rec, lib):
    """many signers: an envelope signed by 65..140 keys (in some order, and in the reverse order) is the same envelope, carries
    exactly one entry per signer, and verifies for every threshold up to their number and for none above it"""
    from ..engines.envelope import _fast_sign

    rng = random.Random(spec["seed"])
    C, S, A = lib.common, lib.signing, lib.authentication
    for i in range(spec["count"]):
        n = rng.choice([65, 66, 70, 100, 129, 140])
        ks = [gkeys.key(300 + j) for j in rng.sample(range(160), n)]
        payload = jsonvals.rand_payload(rng)
        try:
            data = canonjson.canon(payload)
        except canonjson.Unsupported:
            continue
        envs = []
        for order in (ks, list(reversed(ks))):
            e = S.wrap_as_signable(payload)
            # a few foreign entries first, so that the signers' entries come late in insertion order
            if rng.random() < 0.5:
                for j in range(rng.choice([1, 64, 70])):
                    e["signatures"]["%064x" % (j + 1)] = {"signature": "%0128x" % rng.getrandbits(512)}
            foreign = dict(e["signatures"])
            for k in order:
                S.sign_signable(e, C.PrivateKey.from_bytes(k.seed))
            envs.append((e, foreign))
        case = {"kind": "sign_crowd", "signers": n}
        rec.case("crowd|%d|%d" % (n, i))
        rec.count("crowd_signings", 2 * n)
        want = {k.hex: {"signature": _fast_sign(k.seed, data).hex()} for k in ks}
        for e, foreign in envs:
            got = {k: v for k, v in e["signatures"].items() if k not in foreign}
            if got != want:
                rec.violation("signer-binding/sign_signable/many-signers/entries-differ",
                              "after %d keys signed, the envelope does not carry exactly one RFC 8032 entry per signer (%d entries)" % (n, len(got)), case)
                break
            auth = [k.hex for k in ks]
            rng.shuffle(auth)
            for t in sorted({1, 2, 63, 64, 65, n - 1, n}):
                o = boundary.call(lib, A.verify_signable, e, auth, t)
                rec.count("crowd_threshold_checks")
                if not o.accepted:
                    rec.violation(boundary.mechanism("sign-then-verify", "verify_signable[%d signers]" % (64 if n > 64 else n), "accept", o) + "/threshold-up-to-signers",
                                  "envelope signed by %d authorized keys rejected for threshold %d" % (n, t), dict(case, threshold=t))
                    break
            o = boundary.call(lib, A.verify_signable, e, auth, n + 1)
            if o.accepted:
                rec.violation("sign-then-verify/verify_signable/accepts-threshold-above-signers", "threshold %d accepted with %d signers" % (n + 1, n), case)


def run_shard(spec, rec, lib):
    if spec.get("kind") == "crowd":
        return run_crowd(spec, rec, lib)
    if spec.get("kind") == "threads":
        return run_threads(spec, rec, lib)
    rng = random.Random(spec["seed"])
    sp = probes.SignProbe(lib)
    for i in range(spec["count"]):
        case = gen_case(rng)
        check_case(case, rec, lib, sp if i % 2 == 0 else None)
        if i % 20 == 5:
            noise.tick(lib, rng, spec.get("scratch"))
        if i < 2:
            rec.sample({"payload": case["payload"], "signers": [s[:8] for s in case["seeds"]],
                        "pre_existing": [[k[:12], v] for k, v in case["pre"]]})
    if sp.total == 0:
        rec.count("probe_unreached")


def replay(case, rec, lib):
    if case.get("kind") == "sign_threads":
        print("schedule-dependent witness; re-running the signing thread workload")
        return run_threads({"seed": 1, "threads": case.get("threads", 4), "count": 60}, rec, lib)
    check_case(case, rec, lib, probes.SignProbe(lib))
