"""C03 - root update accepted iff version+1 and signed per old and new root rules."""
import random

from ..engines import hostile, noise, rootchain, threads
from ..monitors import boundary
from ..refs import models

RULE = (
    "(trusted root, offered root) pairs: versions {v-1,v,v+1,v+2,1,1e9,...}, key sets same/rotated/superset/subset/disjoint, "
    "thresholds, signer subsets with OpenPGP-wrapped reference signatures in valid and corrupted states, declared types, 25 "
    "single malformations of either side, missing root delegation; strata = rows of the truth table of the rule, tallied by the "
    "set of conjuncts the *model* finds failing. distinct = (failed-conjunct set, versions delta class, |K|,t,|K'|,t', #entries); "
    "non-trivial = both documents are envelopes."
)
RULE_ADDENDUM = (
    'Additional: forged neighbours re-using just-verified entries, failing-stdout twins (soundness only), concurrent chaining of different roots, the same pairs through verify-metadata in-process (status 0 iff the rule accepts).'
)
RULE = RULE + " " + RULE_ADDENDUM
LIMITS = ["signatures are made by the reference OpenPGP-wrapped signer (GnuPG-made ones in C10)", "at most 5 root keys"]
ASSUMPTIONS = ["reference models vf/refs/models.py:root_verdict, reference schema, reference ed25519/RFC 4880 digest"]


def plan(tier, seed):
    n = 3000 if tier == "quick" else 80000
    shards = 16 if tier == "quick" else 32
    specs = [{"kind": "pairs", "count": n // shards} for _ in range(shards)]
    for T in ([4] if tier == "quick" else [2, 4, 8, 16]):
        specs.append({"kind": "threads", "threads": T, "count": 160 if tier == "quick" else 1500})
    specs.append({"kind": "cli", "count": 150 if tier == "quick" else 3000})
    return specs


def dkey(case, failed):
    def sz(env):
        try:
            d = env["signed"]["delegations"]["root"]
            return "%d/%s" % (len(d["pubkeys"]), d["threshold"])
        except Exception:
            return "?"
    try:
        dv = case["new"]["signed"]["version"] - case["trusted"]["signed"]["version"]
        dv = dv if -2 <= dv <= 2 else "far"
    except Exception:
        dv = "?"
    try:
        ne = len(case["new"]["signatures"])
    except Exception:
        ne = "?"
    return "%s|%s|%s|%s|%s" % (",".join(sorted(failed)) or "none", dv, sz(case["trusted"]), sz(case["new"]), ne)


def judge(case, rec, lib):
    model, failed, out, _mut = rootchain.evaluate(case, lib)
    rec.case(dkey(case, failed), nontrivial=isinstance(case["new"], dict) and isinstance(case["trusted"], dict))
    rec.hist("row_intended", case.get("row"))
    rec.hist("row_by_model", ",".join(sorted(failed)) if failed else ("accept" if model.v == models.ACCEPT else model.v))
    rec.hist("outcome", "accept" if out.accepted else out.cls)
    if case.get("extras"):
        rec.hist("pairs_with_extra_members_by_model", model.v)
    if model.v == models.GREY:
        rec.count("grey")
        return model, out
    if model.v == models.ACCEPT and not out.accepted:
        rec.violation(boundary.mechanism("false-reject", "verify_root", "accept", out),
                      "rule satisfied (version+1, old and new thresholds met) but verify_root raised %s: %s"
                      % (out.cls, (out.msg or "")[:160]), case)
    if model.v == models.REJECT and out.accepted:
        rec.violation("unsound-accept/verify_root/failed=" + ",".join(sorted(failed)),
                      "verify_root accepted although the model finds failing conjunct(s): %s" % ",".join(failed), case)
    if model.v == models.REJECT and not out.accepted:
        rec.count("rejected_rows:" + ",".join(sorted(failed)))
    return model, out


def run_threads(spec, rec, lib):
    """the rule is evaluated on the two documents of THIS call, also while other threads chain other roots"""
    import copy

    rng = random.Random(spec["seed"])
    cases, jobs = [], []
    while len(cases) < spec["count"]:
        case = rootchain.gen_pair(rng)
        trusted, new = copy.deepcopy(case["trusted"]), copy.deepcopy(case["new"])
        model, failed = rootchain.model_of(case, trusted, new)
        if model.v == models.GREY:
            continue
        cases.append((case, model, failed))
        jobs.append((lib.authentication.verify_root, (trusted, new), {}))
    res = threads.run_calls(lib, jobs, spec["threads"], rec, spec["seed"], prob=0.05, label="verify_root")
    if res is None:
        return
    for (case, model, failed), out in zip(cases, res):
        if out is None:
            continue
        rec.case("thr|%d|%s" % (spec["threads"], dkey(case, failed)))
        if model.v == models.REJECT and out.accepted:
            rec.violation("unsound-accept/verify_root/under-threads/failed=" + ",".join(sorted(failed)),
                          "verify_root accepted under %d concurrent threads although: %s" % (spec["threads"], ",".join(failed)), case)
        if model.v == models.ACCEPT and not out.accepted:
            rec.violation(boundary.mechanism("false-reject", "verify_root[threads]", "accept", out),
                          "rule satisfied, rejected under %d concurrent threads" % spec["threads"], case)


def run_cli(spec, rec, lib):
    """the same rule through the command line's verify-metadata (files in, status out): status 0 iff the rule accepts"""
    import json
    import os

    rng = random.Random(spec["seed"])
    d = spec["scratch"]
    tp, up = os.path.join(d, "trusted.json"), os.path.join(d, "offered.json")
    for i in range(spec["count"]):
        case = rootchain.gen_pair(rng)
        try:
            tb, ub = json.dumps(case["trusted"]), json.dumps(case["new"])
            trusted, new = json.loads(tb), json.loads(ub)  # what the tool will read
        except (TypeError, ValueError):
            continue
        if not (isinstance(new, dict) and isinstance(new.get("signed"), dict) and new["signed"].get("type") == "root"):
            continue  # the command line dispatches on the offered file's declared type
        model, failed = rootchain.model_of(case, trusted, new)
        if model.v == models.GREY:
            continue
        with open(tp, "w") as f:
            f.write(tb)
        with open(up, "w") as f:
            f.write(ub)
        try:
            o = boundary.call(lib, lib.cli.cli, ["verify-metadata", tp, up])
            ret = o.value if o.accepted else 1
        except SystemExit as e:
            ret = e.code
        status = 0 if ret is None else ((ret & 0xFF) if isinstance(ret, int) and not isinstance(ret, bool) else 1)
        rec.case("cli|" + dkey(case, failed))
        rec.count("cli_pairs")
        if model.v == models.REJECT and status == 0:
            rec.violation("unsound-accept/verify-metadata[root]/failed=" + ",".join(sorted(failed)),
                          "the command line reports status 0 for an offered root the rule refuses (%s)" % ",".join(failed), case)
        if model.v == models.ACCEPT and status != 0:
            rec.violation("false-reject/verify-metadata[root]/status=%s" % status, "rule satisfied but the command line reports status %s" % status, case)


def run_shard(spec, rec, lib):
    from ..gen import vocab

    rootchain.EXTRA_NAMES = vocab.learn(lib.pkg_dir)["names"]
    rec.count("member_names_learned_from_library_code", len(rootchain.EXTRA_NAMES))
    if spec.get("kind") == "cli":
        return run_cli(spec, rec, lib)
    if spec.get("kind") == "threads":
        return run_threads(spec, rec, lib)
    rng = random.Random(spec["seed"])
    for i in range(spec["count"]):
        case = rootchain.gen_pair(rng)
        model, out = judge(case, rec, lib)
        if i % 25 == 7:
            noise.tick(lib, rng, spec.get("scratch"))
        if i % 3 == 0 and model.v != models.GREY:
            # the SAME two objects presented again (a client that keeps its trusted root in memory and is offered a document twice):
            # the rule is evaluated on what the documents say, not on what an earlier call left behind in them
            import copy

            t, n = copy.deepcopy(case["trusted"]), copy.deepcopy(case["new"])
            outs = [boundary.call(lib, lib.authentication.verify_root, t, n) for _ in range(3)]
            rec.count("repeated_presentations_on_same_objects")
            if any(o.accepted for o in outs) and model.v == models.REJECT:
                rec.violation("unsound-accept/verify_root/repeated-presentation-on-the-same-objects/" + str(model.why).replace(" ", "-")[:60],
                              "offer refused at first, accepted when the same objects were presented again (call %d of 3)"
                              % (1 + [o.accepted for o in outs].index(True)), case)
            elif len({o.accepted for o in outs}) > 1:
                rec.violation("history-dependence/verify_root/verdict-changes-on-repeated-presentation", "verdicts %s for three identical calls"
                              % [o.brief() for o in outs], case)
        if i % 4 == 1:
            tw = dict(case, stdout=rng.choice(hostile.MODES), row="stdout-fails:%s" % case.get("row"))
            judge(tw, rec, lib)
            rec.count("failing_stdout_runs")
            rec.count("failing_stdout_write_attempts", tw.get("_stdout_write_attempts", 0))
        if out.accepted and model.v == models.ACCEPT:
            # related neighbours in the same process: the signature entries the library has just
            # verified, re-used verbatim on (a) the same version with edited content and
            # (b) a forged successor of the accepted root
            import copy

            forged = copy.deepcopy(case["new"])
            forged["signed"]["delegations"]["key_mgr"] = {"pubkeys": ["%064x" % rng.getrandbits(256)], "threshold": 1}
            judge({"kind": "rootpair", "trusted": case["trusted"], "new": forged, "row": "forged-same-version"}, rec, lib)
            succ = copy.deepcopy(case["new"])
            succ["signed"]["version"] = case["new"]["signed"]["version"] + 1
            succ["signed"]["delegations"]["key_mgr"] = {"pubkeys": ["%064x" % rng.getrandbits(256)], "threshold": 1}
            judge({"kind": "rootpair", "trusted": case["new"], "new": succ, "row": "forged-successor-reusing-signatures"}, rec, lib)
            rec.count("forged_neighbours_after_accept", 2)
        if i < 2:
            rec.sample({"pair": rootchain.brief(case), "model": model.as_json(), "observed": out.as_json()})


def finish(merged, tier, seed):
    h = merged.hists.get("row_by_model", {})
    if h.get("accept", 0) == 0:
        merged.inconclusive_because("no pair that the rule accepts was generated")
    for need in ("version", "old_rule", "new_rule", "type"):
        if not any(need == k for k in h):
            merged.inconclusive_because("no pair failing only conjunct %s" % need)


def replay(case, rec, lib):
    judge(case, rec, lib)
