"""C05 - delegation check uses exactly the named role's keys and threshold."""
import random

from ..engines import hostile, delegation, inplace, noise, threads
from ..gen import keys as gkeys
from ..monitors import boundary
from ..refs import models

RULE = (
    "trusted delegating metadata with 2-4 roles (names incl. empty, Unicode, near-duplicates; disjoint or overlapping key sets; "
    "different thresholds) x untrusted envelope (delegating metadata listing attacker keys for the role, or arbitrary payload) x "
    "signer strategies: satisfy the named role / another role / the untrusted side's own delegation / the union of all roles / "
    "one below threshold / type confusion / undelegated role, both signature modes. Oracle = reference delegation model. "
    "distinct = (stratum, mode, untrusted kind, failing conjuncts, #roles, role delegated?, #entries)."
)
RULE_ADDENDUM = (
    "Additional: stale well-formed entries under listed keys that are not needed, entries re-filed under another role's keys after an acceptance, failing-stdout twins, in-place histories of one trusted object, concurrent verification of different roles."
)
RULE = RULE + " " + RULE_ADDENDUM
LIMITS = ["at most 4 roles and 3 keys per role"]
ASSUMPTIONS = ["reference delegation model, schema, signer"]


def plan(tier, seed):
    n = 4000 if tier == "quick" else 100000
    shards = 12 if tier == "quick" else 32
    specs = [{"kind": "deleg", "count": n // shards} for _ in range(shards)]
    for _ in range(2 if tier == "quick" else 6):
        specs.append({"kind": "inplace", "count": 60 if tier == "quick" else 600})
    for T in ([4, 8] if tier == "quick" else [2, 4, 8, 16]):
        specs.append({"kind": "threads", "threads": T, "count": 250 if tier == "quick" else 2000})
    return specs


def judge(case, rec, lib):
    model, failed, out, _m = delegation.evaluate(case, lib)
    rec.case(delegation.dkey(case, failed))
    rec.hist("stratum", case["stratum"])
    rec.hist("model", model.v if model.v != models.REJECT else "REJECT:" + (",".join(failed) or "?"))
    rec.hist("outcome", "accept" if out.accepted else out.cls)
    if model.v == models.GREY:
        rec.count("grey")
        return model, out
    if model.v == models.ACCEPT and not out.accepted:
        rec.violation(boundary.mechanism("false-reject", "verify_delegation", "accept", out),
                      "named role's keys/threshold met (and type matches) but verify_delegation raised %s" % out.cls, case)
    if model.v == models.REJECT and out.accepted:
        rec.violation("unsound-accept/verify_delegation/failed=%s/stratum=%s" % (",".join(sorted(failed)), case["stratum"]),
                      "accepted although: %s" % model.why, case)
    if model.v == models.REJECT and failed == ["unknown_role"] and model.error and not out.accepted and out.family != "UnknownRoleError":
        rec.violation(boundary.mechanism("error-family", "verify_delegation", "UnknownRoleError", out),
                      "undelegated role not reported as unknown", case)
    if model.v == models.REJECT and not out.accepted:
        rec.count("rejected:" + case["stratum"])
    return model, out


def run_inplace(spec, rec, lib):
    """one long-lived trusted dict, changed in place between calls (key rotation, threshold raise, role removal ...)"""
    rng = random.Random(spec["seed"])
    for i in range(spec["count"]):
        viols = inplace.delegation_history(rng, lib, rec, "C05", steps=12)
        rec.case("inplace|%d|%d" % (spec["seed"], i))
        for mech, msg, case in viols:
            if mech.startswith("argument-mutation"):
                continue  # C12's business
            rec.violation(mech, msg, case)
    rec.sample({"inplace_history": "one trusted dict object mutated in place between verify_delegation calls; model judges its current content"})


def run_threads(spec, rec, lib):
    """the keys and threshold that count are those of the role named in THIS call, also while other roles are being
    verified concurrently"""
    rng = random.Random(spec["seed"])
    for case, model, out in threads.run_delegation(lib, rng, spec["count"], spec["threads"], rec, spec["seed"]):
        rec.case("thr|%d|%s" % (spec["threads"], case["stratum"]))
        if out.accepted and model.v == models.REJECT:
            rec.violation("unsound-accept/verify_delegation/under-threads",
                          "accepted under %d concurrent threads although: %s" % (spec["threads"], model.why), case)
        if model.v == models.ACCEPT and not out.accepted:
            rec.violation(boundary.mechanism("false-reject", "verify_delegation[threads]", "accept", out),
                          "properly signed for the role, rejected under %d concurrent threads" % spec["threads"], case)


def run_shard(spec, rec, lib):
    if spec["kind"] == "threads":
        return run_threads(spec, rec, lib)
    if spec["kind"] == "inplace":
        return run_inplace(spec, rec, lib)
    rng = random.Random(spec["seed"])
    for i in range(spec["count"]):
        case = delegation.gen_case(rng)
        model, out = judge(case, rec, lib)
        if i % 25 == 7:
            noise.tick(lib, rng, spec.get("scratch"))
        if out.accepted and model.v == models.ACCEPT and i % 2 == 0:
            # related neighbour right after an acceptance: the same payload, the entries just verified re-filed under the key
            # names of a role that lists OTHER keys (nothing verified earlier in the process may count for them)
            import copy

            role = case["role"]
            tr2 = copy.deepcopy(case["trusted"])
            d = tr2["signed"]["delegations"][role]
            old_keys = list(d["pubkeys"])
            fresh = [gkeys.key(40 + j).hex for j in range(len(old_keys))]
            d["pubkeys"] = fresh
            un2 = copy.deepcopy(case["untrusted"])
            un2["signatures"] = {fresh[old_keys.index(k)]: v for k, v in un2["signatures"].items() if k in old_keys}
            judge(dict(case, trusted=tr2, untrusted=un2, stratum="refiled-after-accept:" + case["stratum"]), rec, lib)
            rec.count("refiled_neighbours_after_accept")
        if i % 5 == 2:
            tw = dict(case, stdout=rng.choice(hostile.MODES), stratum="stdout-fails:" + case["stratum"])
            judge(tw, rec, lib)
            rec.count("failing_stdout_runs")
            rec.count("failing_stdout_write_attempts", tw.get("_stdout_write_attempts", 0))
        if i < 2:
            rec.sample({"case": delegation.brief(case), "model": model.as_json(), "observed": out.as_json()})


def finish(merged, tier, seed):
    h = merged.hists.get("model", {})
    if h.get("ACCEPT", 0) == 0:
        merged.inconclusive_because("no accepting case generated")


def replay(case, rec, lib):
    if case.get("kind") == "inplace_deleg":
        print("history-dependent witness (ops: %s); re-running in-place histories" % "->".join(case["ops"]))
        run_inplace({"seed": 1, "count": 200}, rec, lib)
        return
    judge(case, rec, lib)
