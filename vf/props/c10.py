"""C10 - OpenPGP-wrapped signatures follow RFC 4880 v4 and interoperate with GnuPG."""
import copy
import os
import random

from ..gen import jsonvals, keys as gkeys, metadata as gmd
from ..monitors import boundary, gnupg
from ..refs import canonjson, ed25519, models, openpgp, schema

RULE = (
    "A (reference signer): payload byte strings (empty, 1 B ... 1 MB) x header byte strings (lengths 1,2,34,255,256,65535,65536,2^20; "
    "GnuPG-shaped and random) x keys; valid entries must verify through verify_gpg_signature and verify_signable(gpg=True); "
    "corruptions: single bits of signature/key/data/header (full 512+256-bit sweeps in the thorough tier), header "
    "truncated/extended, boundary shift between data and header, S+L, swapped key, see_also present/absent -> must be rejected. "
    "B (real GnuPG 2.2): metadata signed through the library's own sign_root_metadata_dict_via_gpg / sign_root_metadata_via_gpg / "
    "sign_via_gpg with shipped and freshly generated OpenPGP keys; entry filed under raw key q, well-formed, accepted by library and "
    "reference, rejected after each corruption. distinct = (workload, data length class, header length, corruption class[, bit])."
)
RULE_ADDENDUM = (
    'Additional: shared / partial see_also values, header lengths incl. 65541/65542 and 2**20, thread schedule over different large payloads, re-signing revised documents through GnuPG.'
)
RULE = RULE + " " + RULE_ADDENDUM
LIMITS = ["headers >= 4 GiB (32-bit length field overflow) cannot be built in memory", "GnuPG 2.2.40 only; no hardware tokens",
          "the GnuPG-backed securesystemslib stand-in (vf/shims) is harness code"]
ASSUMPTIONS = ["reference digest construction (vf/refs/openpgp.py) follows RFC 4880 5.2.4; validated against GnuPG output and shipped fixtures",
               "GnuPG stand-in parses v4 signature / public-key packets correctly (its output is first checked by the reference verifier)"]

HDR_LENS = {"quick": [1, 2, 34, 255, 256, 65535, 65536, 65541, 65542, 131072],
            "thorough": [1, 2, 3, 34, 35, 255, 256, 257, 65535, 65536, 65537, 65541, 65542, 65543, 131072, 2**20]}
DATA_LENS = {"quick": [0, 1, 16, 17, 64, 1000, 100000], "thorough": [0, 1, 15, 16, 17, 55, 56, 64, 119, 1000, 65536, 1_000_000]}


def plan(tier, seed):
    q = tier == "quick"
    specs = []
    for _ in range(8 if q else 20):
        specs.append({"kind": "ref", "count": 150 if q else 1200})
    for tz in ("Asia/Tokyo", "Pacific/Kiritimati", "America/Los_Angeles", "JST-9"):
        specs.append({"kind": "ref", "count": 60 if q else 500, "env": {"TZ": tz}})
        specs.append({"kind": "gnupg", "count": 3 if q else 20, "genkeys": 0, "shim": True, "env": {"TZ": tz}})
    for _ in range(2 if q else 10):
        specs.append({"kind": "bitsweep", "count": 1 if q else 2, "full": not q})
    specs.append({"kind": "envelope", "count": 200 if q else 4000})
    specs.append({"kind": "buffers", "count": 60 if q else 1500})
    for T in ([4] if q else [2, 4, 8, 16]):
        specs.append({"kind": "threads", "threads": T, "count": 25 if q else 200})
    specs.append({"kind": "gnupg", "count": 6 if q else 100, "genkeys": 1 if q else 5, "shim": True})
    return specs


def expect(rec, lib, entry, keyhex, data, want_valid, label, case):
    A = lib.authentication
    out = boundary.call(lib, A.verify_gpg_signature, copy.deepcopy(entry), keyhex, data)
    rec.hist("label", label)
    if want_valid:
        rec.count("valid_checked")
        if not out.accepted:
            rec.violation(boundary.mechanism("false-reject", "verify_gpg_signature", "accept", out) + "/" + label.split(":")[0],
                          "RFC 4880-valid signature rejected (%s): %s" % (label, (out.msg or "")[:120]), case)
    else:
        rec.count("corrupt_checked")
        if out.accepted:
            rec.violation("unsound-accept/verify_gpg_signature/" + label.split(":")[0],
                          "corrupted signature accepted (%s)" % label, case)
        elif out.family not in ("InvalidSignature", "TypeError", "ValueError"):
            rec.violation(boundary.mechanism("undocumented-error", "verify_gpg_signature", "InvalidSignature", out),
                          "corruption %s raised %s" % (label, out.cls), case)
    return out


def flipbit(b, i):
    b = bytearray(b)
    b[i // 8] ^= 1 << (i % 8)
    return bytes(b)


def make_case(rng, tier):
    key = gkeys.key(rng.randrange(8)) if rng.random() < 0.7 else gkeys.rand_key(rng)
    dl = rng.choice(DATA_LENS[tier])
    data = rng.randbytes(dl) if dl < 2000 else (rng.randbytes(997) * (dl // 997 + 1))[:dl]
    if rng.random() < 0.35:
        # canonical JSON text as payload (LF line ends, as every real payload has)
        data = canonjson.canon(jsonvals.rand_value(rng, 0, 3, 3) if dl < 2000 else {"k": ["v"] * (dl // 12)})
    style = rng.choice(["gnupg", "gnupg_now", "gnupg_sigtype", "gnupg_sigtype", "gnupg_version", "gnupg_version", "v4prefix", "random", "long"])
    if style == "gnupg":
        hdr = openpgp.gnupg_style_header(rng.randbytes(20), rng.randrange(2**32))
    elif style == "gnupg_now":
        import time as _time

        # creation time around "now" (as every freshly made signature has), a little in the past or the future
        hdr = openpgp.gnupg_style_header(rng.randbytes(20), int(_time.time()) + rng.choice([-86400, -3600, -1, 0, 1, 3600, 86400, 10**7]))
    elif style == "gnupg_sigtype":
        # same layout as GnuPG writes, other signature type / algorithm bytes (text-mode 0x01, standalone 0x02, certifications ...)
        h = bytearray(openpgp.gnupg_style_header(rng.randbytes(20), rng.randrange(2**32)))
        h[1] = rng.choice([0x01, 0x01, 0x02, 0x10, 0x13, 0x18, 0x1F, 0x20, 0x28, 0x30, 0x40, 0x50, 0xFF])
        if rng.random() < 0.3:
            h[3] = rng.choice([0x02, 0x09, 0x0A, 0x0B])
        hdr = bytes(h)
    elif style == "gnupg_version":
        # the layout of a real signature packet (internally consistent lengths), its leading version octet saying something other
        # than 4 (the packet versions 3, 5, 6 of other OpenPGP generations; arbitrary values): the header is opaque bytes, and
        # the digest's trailer is the fixed 04 FF + 32-bit length whatever the header says about itself
        h = bytearray(openpgp.gnupg_style_header(rng.randbytes(20), rng.randrange(2**32)))
        h[0] = rng.choice([0x05, 0x05, 0x06, 0x03, 0x02, 0x00, 0xFF, 0x84, 0x34])
        if rng.random() < 0.4:
            h[1] = rng.choice([0x00, 0x01])
        if rng.random() < 0.3:
            # version 6 layout: four-octet subpacket length
            h[4:6] = bytes([0, 0]) + bytes(h[4:6])
        hdr = bytes(h)
    elif style == "v4prefix":
        hdr = bytes([0x04, rng.randrange(256), rng.randrange(256), rng.randrange(256)]) + rng.randbytes(rng.choice([0, 2, 30]))
    else:
        hl = rng.choice(HDR_LENS[tier]) if style == "long" else rng.choice([1, 2, 3, 34, 35, 70])
        hdr = rng.randbytes(hl) if hl < 5000 else (rng.randbytes(991) * (hl // 991 + 1))[:hl]
    return key, data, hdr, style


_STRICT_HEX = __import__("re").compile(r"(?:[0-9a-f]{2})+")


def corruptions(key, data, hdr, entry, rng):
    """yields (label, entry, keyhex, data)"""
    sig = bytes.fromhex(entry["signature"])
    hx = hdr.hex()
    # the header's hex with white space that a lenient hex decoder skips: the decoded bytes would be the signed ones, but the
    # field is not a hex string
    for lab, sp in (("hdr_hex_trailing_newline", hx + "\n"), ("hdr_hex_trailing_space", hx + " "), ("hdr_hex_inner_space", hx[:4] + " " + hx[4:]),
                    ("hdr_hex_leading_newline", "\n" + hx), ("hdr_hex_crlf", hx + "\r\n"), ("hdr_hex_upper", hx.upper() if hx.upper() != hx else "AB" + hx)):
        yield lab, dict(entry, other_headers=sp), key.hex, data
    yield "sig_hex_trailing_newline", dict(entry, signature=entry["signature"] + "\n"), key.hex, data
    yield "key_hex_trailing_newline", entry, key.hex + "\n", data
    i = rng.randrange(512)
    yield "sig_bit", dict(entry, signature=flipbit(sig, i).hex()), key.hex, data
    i = rng.randrange(256)
    yield "key_bit", entry, flipbit(key.pub, i).hex(), data
    if data:
        i = rng.randrange(len(data) * 8)
        yield "data_bit", entry, key.hex, flipbit(data, i)
    yield "data_append", entry, key.hex, data + b"\x00"
    if len(data) > 16:
        yield "data_tail_changed", entry, key.hex, data[:16] + flipbit(data[16:], rng.randrange((len(data) - 16) * 8))
        yield "data_truncated", entry, key.hex, data[:-1]
    i = rng.randrange(len(hdr) * 8)
    yield "hdr_bit", dict(entry, other_headers=flipbit(hdr, i).hex()), key.hex, data
    if len(hdr) > 1:
        yield "hdr_truncated", dict(entry, other_headers=hdr[:-1].hex()), key.hex, data
    yield "hdr_extended", dict(entry, other_headers=(hdr + b"\x00").hex()), key.hex, data
    # boundary shift: same concatenated byte stream, only the length trailer differs
    if len(hdr) > 1:
        yield "boundary_shift_to_data", dict(entry, other_headers=hdr[1:].hex()), key.hex, data + hdr[:1]
    if data:
        yield "boundary_shift_to_hdr", dict(entry, other_headers=(data[-1:] + hdr).hex()), key.hex, data[:-1]
    yield "s_plus_l", dict(entry, signature=ed25519.malleate_S(sig).hex()), key.hex, data
    other = gkeys.key(30)
    yield "key_swapped", entry, other.hex, data
    yield "raw_sig_over_data", dict(entry, signature=ed25519.sign(key.seed, data).hex()), key.hex, data
    yield "sig_over_hdr_then_data", dict(entry, signature=ed25519.sign(
        key.seed, __import__("hashlib").sha256(hdr + data + b"\x04\xff" + openpgp.be32(len(hdr))).digest()).hex()), key.hex, data
    yield "sig_le_trailer", dict(entry, signature=ed25519.sign(
        key.seed, __import__("hashlib").sha256(data + hdr + b"\x04\xff" + len(hdr).to_bytes(4, "little")).digest()).hex()), key.hex, data
    import hashlib as _hl

    # digests other OpenPGP packet versions define over the same inputs (none of them is the one the rule states)
    yield "sig_v5_trailer", dict(entry, signature=ed25519.sign(
        key.seed, _hl.sha256(data + hdr + b"\x05\xff" + len(hdr).to_bytes(8, "big")).digest()).hex()), key.hex, data
    yield "sig_v5_document_trailer", dict(entry, signature=ed25519.sign(
        key.seed, _hl.sha256(data + hdr + b"\x00" * 6 + b"\x05\xff" + len(hdr).to_bytes(8, "big")).digest()).hex()), key.hex, data
    yield "sig_v6_trailer", dict(entry, signature=ed25519.sign(
        key.seed, _hl.sha256(data + hdr + b"\x06\xff" + openpgp.be32(len(hdr))).digest()).hex()), key.hex, data
    yield "sig_own_version_trailer", dict(entry, signature=ed25519.sign(
        key.seed, _hl.sha256(data + hdr + hdr[:1] + b"\xff" + openpgp.be32(len(hdr))).digest()).hex()), key.hex, data
    yield "sig_v3_no_trailer", dict(entry, signature=ed25519.sign(key.seed, _hl.sha256(data + hdr).digest()).hex()), key.hex, data
    yield "sig_sha512", dict(entry, signature=ed25519.sign(
        key.seed, __import__("hashlib").sha512(data + hdr + b"\x04\xff" + openpgp.be32(len(hdr))).digest()).hex()), key.hex, data


def run_ref(spec, rec, lib):
    rng = random.Random(spec["seed"])
    tier = spec["tier"]
    for n in range(spec["count"]):
        key, data, hdr, style = make_case(rng, tier)
        entry = openpgp.make_entry(key.seed, data, hdr, see_also=rng.randbytes(20).hex() if rng.random() < 0.3 else None,
                                   nonce=rng.getrandbits(250) if rng.random() < 0.3 else None)
        case = {"kind": "ref", "seed": key.seed.hex(), "data": {"$py": "bytes", "hex": data.hex() if len(data) < 4000 else data[:64].hex()},
                "data_len": len(data), "hdr_len": len(hdr), "hdr": hdr.hex() if len(hdr) < 4000 else hdr[:64].hex(), "style": style}
        dkey = "%d|%d|%s" % (len(data), len(hdr), style)
        rec.case("ref|valid|" + dkey)
        expect(rec, lib, entry, key.hex, data, True, "valid:" + style, case)
        for label, e2, k2, d2 in corruptions(key, data, hdr, entry, rng):
            # the reference decides (a random corruption could, in principle, still be valid)
            try:
                ok = openpgp.verify(bytes.fromhex(k2), d2, bytes.fromhex(e2["other_headers"]), bytes.fromhex(e2["signature"]))
            except Exception:
                ok = False
            if not (_STRICT_HEX.fullmatch(e2["other_headers"]) and _STRICT_HEX.fullmatch(e2["signature"]) and _STRICT_HEX.fullmatch(k2)):
                ok = False  # not hex strings at all (white space a lenient decoder would skip): the entry is malformed
            rec.case("ref|%s|%s" % (label, dkey))
            expect(rec, lib, e2, k2, d2, ok, label, dict(case, corruption=label))
        if n < 1:
            rec.sample({"ref_case": {"key": key.hex[:16], "data_len": len(data), "hdr_len": len(hdr), "style": style, "entry": entry}})


def run_bitsweep(spec, rec, lib):
    rng = random.Random(spec["seed"])
    for n in range(spec["count"]):
        key, data, hdr, style = make_case(rng, "quick")
        entry = openpgp.make_entry(key.seed, data, hdr)
        case = {"kind": "bitsweep", "seed": key.seed.hex(), "data_len": len(data), "hdr_len": len(hdr)}
        sig = bytes.fromhex(entry["signature"])
        step = 1 if spec.get("full") else 7
        for i in range(0, 512, step):
            rec.case("sweep|sig|%d" % i)
            expect(rec, lib, dict(entry, signature=flipbit(sig, i).hex()), key.hex, data, False, "sweep_sig_bit", dict(case, bit=i))
        for i in range(0, 256, step):
            k2 = flipbit(key.pub, i)
            ok = openpgp.verify(k2, data, hdr, sig)
            rec.case("sweep|key|%d" % i)
            expect(rec, lib, entry, k2.hex(), data, ok, "sweep_key_bit", dict(case, bit=i))
        for i in range(0, min(len(hdr) * 8, 400), step):
            rec.case("sweep|hdr|%d" % i)
            expect(rec, lib, dict(entry, other_headers=flipbit(hdr, i).hex()), key.hex, data, False, "sweep_hdr_bit", dict(case, bit=i))
        for i in range(0, min(len(data) * 8, 400), step):
            rec.case("sweep|data|%d" % i)
            expect(rec, lib, entry, key.hex, flipbit(data, i), False, "sweep_data_bit", dict(case, bit=i))
    rec.sample({"bitsweep": "every %s bit of signature (512), key (256), first 400 header and data bits" % ("single" if spec.get("full") else "7th")})


def run_envelope(spec, rec, lib):
    """through verify_signable(gpg=True): mixed valid / corrupted entries vs the threshold model"""
    rng = random.Random(spec["seed"])
    A = lib.authentication
    for n in range(spec["count"]):
        signed = jsonvals.rand_payload(rng)
        data = canonjson.canon(signed)
        ks = [gkeys.key(i) for i in rng.sample(range(6), rng.randint(1, 4))]
        env = gmd.envelope(signed)
        for k in ks:
            hdr = openpgp.gnupg_style_header(rng.randbytes(20), rng.randrange(2**32))
            e = openpgp.make_entry(k.seed, data, hdr)
            r = rng.random()
            if r < 0.3:
                label, e, _k, _d = rng.choice(list(x for x in corruptions(k, data, hdr, e, rng) if x[2] == k.hex and x[3] == data))
            env["signatures"][k.hex] = e
        r2 = rng.random()
        if r2 < 0.3:
            # the optional see_also field (unsigned, diagnostic): one shared value on every entry / distinct values / on some only
            fp = "%040x" % rng.getrandbits(160)
            for e in env["signatures"].values():
                if isinstance(e, dict) and isinstance(e.get("see_also", ""), str):
                    e["see_also"] = fp
        elif r2 < 0.45:
            for e in env["signatures"].values():
                if isinstance(e, dict) and rng.random() < 0.5 and isinstance(e.get("see_also", ""), str):
                    e["see_also"] = "%040x" % rng.getrandbits(160)
        auth = [k.hex for k in ks]
        t = rng.randint(1, len(ks))
        model = models.threshold_verdict(env, auth, t, True)
        out = boundary.call(lib, A.verify_signable, copy.deepcopy(env), auth, t, gpg=True)
        rec.case("envelope|%d|%d|%s" % (len(ks), t, model.v))
        case = {"kind": "env", "signed": signed, "sigs": [[k, v] for k, v in env["signatures"].items()], "authorized": auth,
                "threshold": t, "gpg": True, "stratum": "c10", "states": []}
        if model.v == models.ACCEPT and not out.accepted:
            rec.violation(boundary.mechanism("false-reject", "verify_signable[gpg]", "accept", out), "threshold of valid OpenPGP entries rejected", case)
        if model.v == models.REJECT and out.accepted:
            rec.violation("unsound-accept/verify_signable[gpg]", "accepted with %d valid entries for threshold %d" % (len(model.counted), t), case)


def run_gnupg(spec, rec, lib):
    if not gnupg.gpg_available():
        rec.count("gnupg_skipped_no_binary")
        rec.case("gnupg-skipped", nontrivial=False)
        return
    R, A, C = lib.root_signing, lib.authentication, lib.common
    if R is None or not getattr(R, "SSLIB_AVAILABLE", False):
        rec.inconclusive_because("GnuPG stand-in not picked up by root_signing (SSLIB_AVAILABLE false)")
        return
    rng = random.Random(spec["seed"])
    try:
        home = gnupg.GpgHome().__enter__()
    except Exception as e:  # noqa: BLE001
        # environmental (no usable gpg-agent / home): the GnuPG sub-workload is skipped, the reference workload decides
        rec.count("gnupg_unavailable")
        rec.extra["gnupg_unavailable_reason"] = str(e)[:200]
        rec.case("gnupg-unavailable", nontrivial=False)
        return
    try:
        try:
            gen = home.generate(spec.get("genkeys", 1))
        except Exception as e:  # noqa: BLE001
            gen = []
            rec.count("gnupg_keygen_failed")
        fprs = list(gnupg.SHIPPED) + gen
        for n in range(spec["count"]):
            fpr = fprs[n % len(fprs)]
            ks = [gkeys.key(0), gkeys.key(1)]
            md = gmd.root_md(rng.randint(1, 50), ks, 1, [gkeys.key(2)], 1) if rng.random() < 0.7 else jsonvals.rand_payload(rng)
            data = canonjson.canon(md)
            env = gmd.envelope(copy.deepcopy(md))
            how = n % 3
            case = {"kind": "gnupg", "fingerprint": fpr, "how": how, "signed": md}
            if n % 2 == 1 and how in (0, 1):
                # the envelope already carries a (stale) OpenPGP entry by this very key: the previous version was signed, the
                # content was revised, now it is signed again
                prev = copy.deepcopy(md)
                if isinstance(prev, dict):
                    prev["revised"] = False
                stale = boundary.call(lib, R.sign_via_gpg, canonjson.canon(prev), fpr)
                q_prev = boundary.call(lib, R.fetch_keyval_from_gpg, fpr)
                if stale.accepted and q_prev.accepted:
                    env["signatures"][q_prev.value] = stale.value
                    case["pre_existing_entry_by_same_key"] = copy.deepcopy(stale.value)
                    rec.count("gnupg_resign_revised")
            spell = fpr if rng.random() < 0.5 else " ".join(fpr.upper()[i:i + 4] for i in range(0, 40, 4))
            if how == 0:
                o = boundary.call(lib, R.sign_root_metadata_dict_via_gpg, env, fpr)
                signed_env = env
            elif how == 1:
                fn = os.path.join(spec["scratch"], "md%d.json" % n)
                C.write_metadata_to_file(env, fn)
                o = boundary.call(lib, R.sign_root_metadata_via_gpg, fn, fpr)
                signed_env = C.load_metadata_from_file(fn) if o.accepted else env
            else:
                o = boundary.call(lib, R.sign_via_gpg, data, fpr, include_fingerprint=rng.random() < 0.5)
                if o.accepted:
                    q0 = boundary.call(lib, R.fetch_keyval_from_gpg, spell)
                    if not q0.accepted:
                        rec.violation(boundary.mechanism("gnupg", "fetch_keyval_from_gpg", "q", q0), "key lookup failed for %r" % spell, case)
                        continue
                    env["signatures"][q0.value] = o.value
                signed_env = env
            rec.case("gnupg|%d|%s" % (how, "shipped" if fpr in gnupg.SHIPPED else "generated"))
            rec.count("gnupg_signatures")
            if not o.accepted:
                if o.cls in ("CommandError", "PacketParsingError", "KeyNotFoundError", "TimeoutExpired"):
                    rec.count("gnupg_shim_failures")
                    continue
                rec.violation(boundary.mechanism("gnupg", "sign-path-%d" % how, "return", o), "GPG signing path raised %s: %s" % (o.cls, o.msg), case)
                continue
            sigs = signed_env["signatures"]
            if len(sigs) != 1:
                rec.violation("gnupg/entry-count", "expected exactly one entry, got %d" % len(sigs), case)
                continue
            (q, entry), = sigs.items()
            case["entry"] = entry
            case["q"] = q
            want_q = gnupg.SHIPPED.get(fpr)
            if want_q is not None and q != want_q:
                rec.violation("gnupg/filed-under-wrong-key", "entry filed under %s, key's raw public value is %s" % (q, want_q), case)
            if schema.gpg_signature(entry) != schema.A or schema.hex_key(q) != schema.A:
                rec.violation("gnupg/entry-malformed", "transcribed entry is not a well-formed OpenPGP entry: %r" % (entry,), case)
                continue
            refok = openpgp.verify(bytes.fromhex(q), data, bytes.fromhex(entry["other_headers"]), bytes.fromhex(entry["signature"]))
            if not refok and case.get("pre_existing_entry_by_same_key") == entry:
                rec.violation("gnupg/stale-entry-kept-instead-of-signing-the-current-payload",
                              "the GPG signing path returned normally but the entry under the key's raw value is still the previous "
                              "(stale) one: the revised document was not signed", case)
                continue
            if not refok:
                rec.count("gnupg_reference_rejects")
                rec.inconclusive_because("reference rejects a GnuPG-made signature (shim or reference suspect)")
                continue
            chk = boundary.call(lib, C.checkformat_gpg_signature, entry)
            if not chk.accepted:
                rec.violation(boundary.mechanism("gnupg", "checkformat_gpg_signature", "accept", chk), "entry checker rejects GnuPG entry", case)
            o2 = boundary.call(lib, A.verify_signable, copy.deepcopy(signed_env), [q], 1, gpg=True)
            rec.count("gnupg_verified")
            if not o2.accepted:
                rec.violation(boundary.mechanism("false-reject", "verify_signable[gnupg]", "accept", o2),
                              "signature made by real GnuPG through the library's signing path is rejected", case)
            o3 = boundary.call(lib, A.verify_gpg_signature, copy.deepcopy(entry), q, data)
            if not o3.accepted:
                rec.violation(boundary.mechanism("false-reject", "verify_gpg_signature[gnupg]", "accept", o3), "GnuPG signature rejected", case)
            # corruptions of the real signature
            key = type("K", (), {"hex": q, "pub": bytes.fromhex(q), "seed": gkeys.key(31).seed})()
            hdr = bytes.fromhex(entry["other_headers"])
            for label, e2, k2, d2 in corruptions(key, data, hdr, entry, rng):
                if label.startswith(("raw_sig", "sig_over", "sig_le", "sig_sha")):
                    continue
                try:
                    ok = openpgp.verify(bytes.fromhex(k2), d2, bytes.fromhex(e2["other_headers"]), bytes.fromhex(e2["signature"]))
                except Exception:
                    ok = False
                if not (_STRICT_HEX.fullmatch(e2["other_headers"]) and _STRICT_HEX.fullmatch(e2["signature"]) and _STRICT_HEX.fullmatch(k2)):
                    ok = False  # not hex strings at all
                rec.case("gnupg|%s" % label)
                expect(rec, lib, e2, k2, d2, ok, "gnupg_" + label, dict(case, corruption=label))
            if n < 1:
                rec.sample({"gnupg_signature": {"fingerprint": fpr, "q": q, "entry": entry, "path": ["dict", "file", "sign_via_gpg"][how]}})
    finally:
        home.__exit__(None, None, None)


def run_buffers(spec, rec, lib):
    """histories over ONE long-lived bytes-like payload object (bytearray) that the caller edits in place between
    verifications, and over one long-lived entry dict: the verdict follows the current content"""
    rng = random.Random(spec["seed"])
    A = lib.authentication
    for n in range(spec["count"]):
        key = gkeys.key(rng.randrange(8))
        data0 = canonjson.canon(jsonvals.rand_value(rng, 0, 3, 3)) + b" " * rng.randint(1, 4)
        hdr = openpgp.gnupg_style_header(rng.randbytes(20), rng.randrange(2**32))
        entry = openpgp.make_entry(key.seed, data0, hdr)
        buf = bytearray(data0)
        ent = dict(entry)
        log = []
        for step in range(rng.randint(3, 8)):
            op = rng.choice(["none", "flip_buf", "restore_buf", "append_buf", "flip_hdr", "restore_hdr", "other_object_same_content"])
            if op == "flip_buf":
                i = rng.randrange(len(buf))
                buf[i] ^= 1 << rng.randrange(8)
            elif op == "restore_buf":
                buf[:] = data0
            elif op == "append_buf":
                buf.extend(b"\n")
            elif op == "flip_hdr":
                ent["other_headers"] = flipbit(bytes.fromhex(ent["other_headers"]), rng.randrange(len(hdr) * 8)).hex()
            elif op == "restore_hdr":
                ent["other_headers"] = entry["other_headers"]
            log.append(op)
            payload = bytes(buf) if op == "other_object_same_content" else buf
            ok = openpgp.verify(key.pub, bytes(buf), bytes.fromhex(ent["other_headers"]), bytes.fromhex(ent["signature"]))
            before_buf, before_ent = bytes(buf), dict(ent)
            o = boundary.call(lib, A.verify_gpg_signature, ent, key.hex, payload)
            if bytes(buf) != before_buf or ent != before_ent:
                rec.violation("argument-mutation/verify_gpg_signature/caller-buffer-or-entry-changed",
                              "the caller's payload buffer (%d -> %d bytes) or entry was modified by the verification" % (len(before_buf), len(buf)),
                              {"kind": "buffers", "ops": list(log), "seed": key.seed.hex()})
                break
            rec.case("buffers|%s|%s" % (op, ok))
            rec.count("buffer_history_calls")
            case = {"kind": "buffers", "ops": list(log), "seed": key.seed.hex()}
            if not o.accepted and o.family == "TypeError" and step == 0:
                rec.count("bytearray_payload_not_accepted")  # a library that only takes bytes: nothing to check
                break
            if ok and not o.accepted:
                rec.violation(boundary.mechanism("false-reject", "verify_gpg_signature[long-lived buffer]", "accept", o),
                              "valid for the buffer's CURRENT content, rejected (history %s)" % "->".join(log), case)
                break
            if not ok and o.accepted:
                rec.violation("unsound-accept/verify_gpg_signature/stale-content-of-long-lived-buffer",
                              "accepted although the buffer's current content / header does not verify (history %s)" % "->".join(log), case)
                break
    rec.sample({"buffers": "one bytearray payload and one entry dict edited in place between verify_gpg_signature calls"})


def run_threads(spec, rec, lib):
    """the digest that is verified is the one of THIS call's payload and header: threads verifying different payloads (some
    large, so that hashing releases the interpreter lock) at the same time, then the main thread again, each judged by
    the reference digest construction of its own arguments"""
    import threading

    from ..gen import entries as gentries
    from ..monitors import sysmon

    rng = random.Random(spec["seed"])
    A = lib.authentication
    T = spec["threads"]
    for rnd in range(spec["count"]):
        k = gkeys.key(rng.randrange(12))
        datas = []
        for t in range(T):
            n = rng.choice([10, 300, 3000, 40000, 400000])
            datas.append(canonjson.canon({"t": t, "pad": "x" * n, "r": rng.randrange(10**9)}))
        hdr = gentries._hdr(rng, "gnupg")
        entries = [openpgp.make_entry(k.seed, d, hdr if rng.random() < 0.6 else gentries._hdr(rng, "gnupg")) for d in datas]
        # every thread checks its own genuine pair and another thread's entry against its own payload (must fail)
        jobs = []
        for t in range(T):
            jobs.append((t, entries[t], datas[t], True))
            u = (t + 1) % T
            jobs.append((t, entries[u], datas[t], False))
        results = {}
        start = threading.Barrier(T)

        def worker(t):
            start.wait()
            for rep in range(3):
                for j, (tt, e, d, want) in enumerate(jobs):
                    if tt == t:
                        results[(t, rep, j)] = boundary.call(lib, A.verify_gpg_signature, copy.deepcopy(e), k.hex, d)

        inj = sysmon.YieldInjector(lib.pkg_dir, random.Random(spec["seed"] * 1000 + rnd), prob=0.3)
        with inj:
            ths = [threading.Thread(target=worker, args=(t,)) for t in range(T)]
            for th in ths:
                th.start()
            for th in ths:
                th.join(600)
        if any(th.is_alive() for th in ths):
            rec.inconclusive_because("OpenPGP thread workload did not finish")
            return
        rec.count("context_switches_inside_library", inj.switches)
        # and afterwards from the main thread (a torn module-level state would persist)
        for j, (tt, e, d, want) in enumerate(jobs):
            results[("main", 0, j)] = boundary.call(lib, A.verify_gpg_signature, copy.deepcopy(e), k.hex, d)
        case = {"kind": "gpg_threads", "threads": T}
        rec.case("gpg-threads|%d|%d" % (T, rnd))
        for (who, rep, j), o in sorted(results.items(), key=lambda kv: str(kv[0])):
            tt, e, d, want = jobs[j]
            ref = openpgp.verify(k.pub, d, bytes.fromhex(e["other_headers"]), bytes.fromhex(e["signature"]))
            if ref != want:
                rec.inconclusive_because("harness: reference disagrees with construction in thread workload")
                return
            rec.count("threaded_gpg_verifications")
            phase = "concurrent" if who != "main" else "sequential-after-threads"
            if want and not o.accepted:
                rec.violation(boundary.mechanism("false-reject", "verify_gpg_signature[threads]", "accept", o) + "/" + phase,
                              "RFC 4880-valid signature over this call's payload rejected (%s, %d threads)" % (phase, T), case)
                break
            if not want and o.accepted:
                rec.violation("unsound-accept/verify_gpg_signature/under-threads/" + phase,
                              "signature made over ANOTHER thread's payload accepted for this call's payload (%s, %d threads)" % (phase, T), case)
                break


def run_shard(spec, rec, lib):
    if spec["kind"] == "threads":
        return run_threads(spec, rec, lib)
    if spec["kind"] == "buffers":
        return run_buffers(spec, rec, lib)
    {"ref": run_ref, "bitsweep": run_bitsweep, "envelope": run_envelope, "gnupg": run_gnupg}[spec["kind"]](spec, rec, lib)


def finish(merged, tier, seed):
    if merged.counters.get("valid_checked", 0) == 0 or merged.counters.get("corrupt_checked", 0) == 0:
        merged.inconclusive_because("reference workload observed nothing")
    if merged.counters.get("gnupg_skipped_no_binary"):
        merged.counters["gnupg_subworkload"] = 0
    elif merged.counters.get("gnupg_unavailable") or (merged.counters.get("gnupg_signatures", 0) == merged.counters.get("gnupg_shim_failures", 0)):
        merged.counters["gnupg_subworkload"] = 0  # gpg present but unusable here: skipped, stated in the evidence
    elif merged.counters.get("gnupg_verified", 0) == 0:
        merged.inconclusive_because("GnuPG sub-workload produced signatures but none was verified")


def replay(case, rec, lib):
    k = case.get("kind")
    if k == "gpg_threads":
        print("schedule-dependent witness; re-running the OpenPGP thread workload")
        return run_threads({"seed": 1, "threads": case.get("threads", 4), "count": 40}, rec, lib)
    if k == "env":
        from . import c01

        c01.judge(case, rec, lib)
    else:
        print("replay by re-running the shard: C10 cases embed large byte strings; see mechanism")
        run_ref({"seed": 1, "count": 20, "tier": "quick"}, rec, lib)
