"""C02 - threshold completeness."""
import copy
import json
import os
import random

from ..engines import delegation, envelope, rootchain, threads
from ..gen import entries as gentries, jsonvals, keys as gkeys
from ..monitors import boundary
from ..refs import canonjson, ed25519, models, openpgp

RULE = (
    "envelopes whose reference count of distinct authorized valid signers is >= threshold (model verdict "
    "ACCEPT), with junk entries, permuted entry/key order, signatures from the library signer, the reference "
    "signer with foreign nonces; shipped fixtures; each under several stdout encodings and pre-import sets. "
    "distinct = (mode, threshold, #authorized, state multiset, stratum, config); non-trivial = model says ACCEPT."
)
RULE_ADDENDUM = (
    'Strata: accept / many signers / crowded / mixed, forced junk, permutations, thread schedules; library-made signatures, shipped fixtures, stored files in all JSON encodings.'
)
RULE = RULE + " " + RULE_ADDENDUM
LIMITS = ["junk maps up to 10^4 entries only in the thorough tier", "GnuPG-made signatures are exercised in C10"]
ASSUMPTIONS = ["reference ed25519 / canonical serializer / RFC 4880 digest are correct"]

HERE = os.path.dirname(os.path.dirname(os.path.dirname(os.path.abspath(__file__))))
FIX = os.path.join(HERE, "fixtures")

N = {"quick": 4000, "thorough": 120000}

CONFIGS = [
    {"name": "default"},
    {"name": "stdout-ascii", "stdout_encoding": "ascii"},
    {"name": "stdout-latin1", "stdout_encoding": "latin-1"},
    {"name": "stdout-utf16", "stdout_encoding": "utf-16"},
    {"name": "stdout-surrogateescape", "stdout_errors": "surrogateescape"},
    {"name": "pre-backends", "preimport": ["cryptography.hazmat.backends", "cryptography.hazmat.primitives.hashes"]},
    {"name": "pre-cli", "preimport": ["conda_content_trust.cli"]},
    {"name": "pre-misc", "preimport": ["hashlib", "ssl", "decimal", "locale", "unittest.mock"]},
    {"name": "pre-strictwarnings", "preimport": ["vf.monitors.strictwarnings"]},
    {"name": "locale-C-noutf8", "env": {"LC_ALL": "C", "PYTHONUTF8": "0", "PYTHONCOERCECLOCALE": "0"}},
]


def plan(tier, seed):
    specs = []
    nshard = 10 if tier == "quick" else 24
    for _ in range(nshard):
        specs.append({"kind": "env", "count": N[tier] // nshard, "config": "default"})
    per = 150 if tier == "quick" else 3000
    for c in CONFIGS[1:]:
        s = {"kind": "env", "count": per, "config": c["name"]}
        s.update({k: v for k, v in c.items() if k != "name"})
        specs.append(s)
    specs.append({"kind": "libsigner", "count": 60 if tier == "quick" else 1500, "config": "default"})
    for _ in range(2 if tier == "quick" else 6):
        specs.append({"kind": "built_on", "count": 500 if tier == "quick" else 6000, "config": "default"})
    for c in (CONFIGS[0], CONFIGS[-1], CONFIGS[-2]):
        s = {"kind": "files", "config": c["name"], "count": 25 if tier == "quick" else 400}
        s.update({k: v for k, v in c.items() if k != "name"})
        specs.append(s)
    for c in (CONFIGS[0], CONFIGS[1], CONFIGS[5]):
        s = {"kind": "fixtures", "config": c["name"]}
        s.update({k: v for k, v in c.items() if k != "name"})
        specs.append(s)
    for T in ([4, 8] if tier == "quick" else [2, 4, 8, 16]):
        specs.append({"kind": "threads", "threads": T, "count": 250 if tier == "quick" else 2000, "config": "default"})
    if tier == "thorough":
        specs.append({"kind": "bigjunk", "count": 6, "config": "default"})
    return specs


def judge(case, rec, lib, config="default"):
    model, out, _mut, _s = envelope.evaluate(case, lib)
    nontriv = model.v == models.ACCEPT
    rec.case(envelope.distinct_key(case) + "|" + config, nontrivial=nontriv)
    rec.hist("model", model.v)
    rec.hist("config", config)
    rec.hist("outcome", "accept" if out.accepted else out.cls)
    if model.v == models.ACCEPT:
        rec.count("model_accepts")
        if any(st == "junk" for st in case["states"]):
            rec.count("model_accepts_with_junk")
        if not out.accepted:
            rec.violation(
                boundary.mechanism("false-reject", "verify_signable", "accept", out),
                "model counts %d >= threshold %r but the call raised %s: %s"
                % (len(model.counted), case["threshold"], out.cls, (out.msg or "")[:160]),
                dict(case, config=config),
            )
    return model, out


def permuted(case, rng):
    c = copy.deepcopy(case)
    rng.shuffle(c["sigs"])
    if c["stratum"] != "sole:distinct":
        rng.shuffle(c["authorized"])
    c["signed"] = jsonvals.shuffled(c["signed"], rng)
    return c


def run_env(spec, rec, lib):
    rng = random.Random(spec["seed"])
    cfg = spec.get("config", "default")
    for i in range(spec["count"]):
        r0 = rng.random()
        stratum = "accept" if r0 < 0.73 else ("many_signers" if r0 < 0.81 else ("crowded" if r0 < 0.84 else "mixed"))
        case = envelope.gen_case(rng, stratum=stratum)
        # completeness needs junk: force some
        if rng.random() < 0.6:
            for _ in range(rng.choice([1, 2, 3, 4, 17, 33])):
                k, v = gentries.junk_pair(rng)
                if not any(p[0] == k for p in case["sigs"]):
                    case["sigs"].insert(rng.randint(0, len(case["sigs"])), [k, v])
                    case["states"] = sorted(case["states"] + ["junk"])
        model, out = judge(case, rec, lib, cfg)
        if i % 4 == 0 or "copy_of_other_keys_valid_entry" in case["states"]:
            pc = permuted(case, rng)
            m2, o2, _m, _s = envelope.evaluate(pc, lib)
            rec.count("permutation_pairs")
            if o2.accepted != out.accepted:
                rec.violation(
                    "order-dependence/verify_signable/verdict-differs-under-permutation",
                    "verdict %s vs %s after permuting entries / keys / payload key order"
                    % (out.brief(), o2.brief()),
                    {"kind": "perm", "a": case, "b": pc, "config": cfg},
                )
        if i < 1:
            rec.sample({"config": cfg, "case": envelope.brief(case), "model": model.as_json(),
                        "observed": out.as_json()})


def run_libsigner(spec, rec, lib):
    """everything produced by the library's own signing functions verifies"""
    rng = random.Random(spec["seed"])
    C, S, A = lib.common, lib.signing, lib.authentication
    for i in range(spec["count"]):
        signed = jsonvals.rand_payload(rng)
        nk = rng.randint(1, 4)
        ks = [gkeys.key(j) for j in rng.sample(range(6), nk)]
        env = S.wrap_as_signable(signed)
        for k in ks:
            S.sign_signable(env, C.PrivateKey.from_bytes(k.seed))
        # plus a foreign conforming signer for one more key
        if rng.random() < 0.5:
            fk = gkeys.key(rng.randrange(6))
            data = canonjson.canon(signed)
            env["signatures"][fk.hex] = {
                "signature": ed25519.sign_with_nonce(fk.seed, data, rng.getrandbits(250)).hex()
            }
            if fk.hex not in [k.hex for k in ks]:
                ks.append(fk)
        for _ in range(rng.randint(0, 3)):
            k, v = gentries.junk_pair(rng)
            env["signatures"].setdefault(k, v)
        authorized = [k.hex for k in ks] + [gkeys.junk_hexkey(rng) for _ in range(rng.randint(0, 2))]
        rng.shuffle(authorized)
        for t in range(1, len(ks) + 1):
            out = boundary.call(lib, A.verify_signable, env, authorized, t)
            rec.case("libsigner|%d|%d" % (len(ks), t))
            rec.count("libsigner_verifications")
            if not out.accepted:
                rec.violation(
                    boundary.mechanism("false-reject", "verify_signable[libsigner]", "accept", out),
                    "envelope signed by the library's signer with %d keys rejected at threshold %d" % (len(ks), t),
                    {"kind": "libsigner", "signed": signed, "seeds": [k.seed.hex() for k in ks], "t": t},
                )
        if i < 1:
            rec.sample({"libsigner": {"signed": signed, "keys": [k.hex[:8] for k in ks]}})


def _load(*p):
    with open(os.path.join(FIX, *p), "rb") as f:
        return json.load(f)


def run_fixtures(spec, rec, lib):
    A, S = lib.authentication, lib.signing
    cfg = spec.get("config", "default")

    def expect_accept(name, fn, *args, **kw):
        out = boundary.call(lib, fn, *args, **kw)
        rec.case("fixture|" + name + "|" + cfg)
        rec.count("fixture_verifications")
        if not out.accepted:
            rec.violation(
                boundary.mechanism("false-reject", "fixture:" + name.split("|")[0], "accept", out),
                "shipped fixture %s no longer verifies: %s" % (name, (out.msg or "")[:200]),
                {"kind": "fixture", "name": name, "config": cfg},
            )

    for d in ("testdata", "demo"):
        r1, r2, km = _load(d, "1.root.json"), _load(d, "2.root.json"), _load(d, "key_mgr.json")
        expect_accept("verify_root|%s 1->2" % d, A.verify_root, r1, r2)
        expect_accept("verify_delegation|%s key_mgr under root1" % d, A.verify_delegation, "key_mgr", km, r1)
        expect_accept("verify_delegation|%s key_mgr under root2" % d, A.verify_delegation, "key_mgr", km, r2)
        k = r1["signed"]["delegations"]["root"]["pubkeys"]
        expect_accept("verify_signable|%s root1 self" % d, A.verify_signable, r1, k, 1, gpg=True)
        for e in r2["signatures"].values():
            pass
    r2, r3 = _load("testdata", "2.root.json"), _load("testdata", "3.root.json")
    expect_accept("verify_root|testdata 2->3", A.verify_root, r2, r3)
    km = _load("testdata", "key_mgr.json")
    expect_accept("verify_delegation|key_mgr under root3", A.verify_delegation, "key_mgr", km, r3)
    for k, e in r2["signatures"].items():
        data = canonjson.canon(r2["signed"])
        expect_accept("verify_gpg_signature|root2 " + k[:8], A.verify_gpg_signature, e, k, data)
    rd = _load("testdata", "repodata_short_signed_sample.json")
    for name, sigs in rd["signatures"].items():
        md = rd["packages"].get(name, rd.get("packages.conda", {}).get(name))
        env = S.wrap_as_signable(md)
        env["signatures"] = copy.deepcopy(sigs)
        expect_accept("verify_signable|artifact " + name, A.verify_signable, env, list(sigs), 1)
    rec.sample({"fixtures": "testdata + demo root chains, key_mgr, repodata_short_signed_sample", "config": cfg})


def run_bigjunk(spec, rec, lib):
    rng = random.Random(spec["seed"])
    A = lib.authentication
    for i in range(spec["count"]):
        case = envelope.gen_case(rng, stratum="accept")
        for j in range(10000):
            k, v = gentries.junk_pair(rng)
            case["sigs"].append([k + str(j), v])
        case["states"] = sorted(case["states"] + ["junk10k"])
        judge(case, rec, lib, "bigjunk")


def run_files(spec, rec, lib):
    """sufficiently signed envelopes stored as JSON text in any encoding a JSON parser auto-detects (UTF-8 with raw non-ASCII
    text, with BOM, UTF-16, UTF-32) and in any layout load and verify, whatever the process locale"""
    import json as _json
    import os as _os

    rng = random.Random(spec["seed"])
    C, A = lib.common, lib.authentication
    cfg = spec.get("config", "default")
    fn = _os.path.join(spec["scratch"], "stored.json")
    for i in range(spec["count"]):
        signed = {"name": rng.choice(["caf\u00e9", "\u65e5\u672c\u8a9e", "\U0001f600 pkg", "plain"]), "v": jsonvals.rand_value(rng, 0, 2, 3)}
        ks = [gkeys.key(j) for j in rng.sample(range(6), rng.randint(1, 3))]
        data = canonjson.canon(signed)
        env = {"signatures": {k.hex: {"signature": ed25519.sign(k.seed, data).hex()} for k in ks}, "signed": signed}
        try:
            text = _json.dumps(env, ensure_ascii=rng.random() < 0.3, indent=rng.choice([None, 2, 4]))
            enc = rng.choice(["utf-8", "utf-8", "utf-8-sig", "utf-16", "utf-16-le", "utf-16-be", "utf-32"])
            raw = text.encode(enc)
        except (UnicodeEncodeError, ValueError):
            continue
        with open(fn, "wb") as f:
            f.write(raw)
        try:
            expect = _json.loads(raw)  # what a conforming parser makes of these bytes
        except Exception:
            continue
        l = boundary.call(lib, C.load_metadata_from_file, fn)
        rec.case("files|%s|%s" % (enc, cfg))
        rec.hist("file_encoding", enc)
        case = {"kind": "file", "encoding": enc, "config": cfg, "text": text}
        if not l.accepted or boundary.value_fingerprint(l.value) != boundary.value_fingerprint(expect):
            rec.violation(boundary.mechanism("false-reject", "load_metadata_from_file[%s]" % enc.split("-")[0], "value", l),
                          "a %s JSON file holding a sufficiently signed envelope does not load to its value (config %s): %s"
                          % (enc, cfg, (l.msg or "")[:100]), case)
            continue
        o = boundary.call(lib, A.verify_signable, l.value, [k.hex for k in ks], len(ks))
        rec.count("file_verifications")
        if not o.accepted:
            rec.violation(boundary.mechanism("false-reject", "verify_signable[file]", "accept", o), "stored envelope rejected after load", case)


def run_built_on(spec, rec, lib):
    """completeness of everything built on the envelope verifier: whenever the named role's (or both root rules')
    thresholds are met by valid signatures, verify_delegation / verify_root return normally - whatever else the
    envelope carries and whatever the signed content looks like"""
    rng = random.Random(spec["seed"])
    for i in range(spec["count"]):
        if i % 3 == 0:
            case = rootchain.gen_pair(rng, rng.choice(["accept", "accept", "old_rule"]))
            model, failed, out, _m = rootchain.evaluate(case, lib)
            fn = "verify_root"
            key = "root|%s|%s" % (case["row"], len(case["new"]["signatures"]) if isinstance(case["new"].get("signatures"), dict) else "?")
        else:
            case = delegation.gen_case(rng, stratum=rng.choice(["named", "named", "named_junk", "below", "other_role"]))
            model, failed, out, _m = delegation.evaluate(case, lib)
            fn = "verify_delegation"
            key = "deleg|" + delegation.dkey(case, failed)
        rec.case(key, nontrivial=model.v == models.ACCEPT)
        if model.v == models.ACCEPT:
            rec.count("model_accepts_built_on:" + fn)
            if not out.accepted:
                rec.violation(boundary.mechanism("false-reject", fn, "accept", out),
                              "thresholds met by valid signatures but %s raised %s: %s" % (fn, out.cls, (out.msg or "")[:140]), dict(case, config="default"))


def run_threads(spec, rec, lib):
    rng = random.Random(spec["seed"])
    for case, model, out in threads.run(lib, rng, spec["count"], spec["threads"], rec, spec["seed"]):
        rec.case("thr|%d|%s" % (spec["threads"], envelope.distinct_key(case)), nontrivial=model.v == models.ACCEPT)
        if model.v == models.ACCEPT and not out.accepted:
            rec.violation(boundary.mechanism("false-reject", "verify_signable[threads]", "accept", out),
                          "sufficiently signed envelope rejected under %d concurrent threads" % spec["threads"], dict(case, config="default"))


def run_shard(spec, rec, lib):
    if spec["kind"] == "threads":
        return run_threads(spec, rec, lib)
    if spec["kind"] == "built_on":
        return run_built_on(spec, rec, lib)
    if spec["kind"] == "files":
        return run_files(spec, rec, lib)
    {"env": run_env, "libsigner": run_libsigner, "fixtures": run_fixtures, "bigjunk": run_bigjunk}[
        spec["kind"]
    ](spec, rec, lib)


def finish(merged, tier, seed):
    if merged.counters.get("model_accepts", 0) == 0:
        merged.inconclusive_because("no case with model verdict ACCEPT was generated")
    if merged.counters.get("fixture_verifications", 0) == 0:
        merged.inconclusive_because("fixture workload observed nothing")


def replay(case, rec, lib):
    k = case.get("kind")
    if k in ("rootpair", "deleg"):
        model, failed, out, _m = (rootchain if k == "rootpair" else delegation).evaluate(case, lib)
        rec.case("replay")
        if model.v == models.ACCEPT and not out.accepted:
            rec.violation(boundary.mechanism("false-reject", "verify_root" if k == "rootpair" else "verify_delegation", "accept", out), "replay", case)
    elif k == "env":
        judge(case, rec, lib, case.get("config", "default"))
    elif k == "perm":
        m1, o1, _a, _b = envelope.evaluate(case["a"], lib)
        m2, o2, _a, _b = envelope.evaluate(case["b"], lib)
        rec.case("perm")
        if o1.accepted != o2.accepted:
            rec.violation("order-dependence/verify_signable/verdict-differs-under-permutation",
                          "%s vs %s" % (o1.brief(), o2.brief()), case)
    elif k == "fixture":
        run_fixtures({"config": case.get("config", "default")}, rec, lib)
    elif k == "libsigner":
        C, S, A = lib.common, lib.signing, lib.authentication
        env = S.wrap_as_signable(case["signed"])
        for s in case["seeds"]:
            S.sign_signable(env, C.PrivateKey.from_bytes(bytes.fromhex(s)))
        out = boundary.call(lib, A.verify_signable, env, list(env["signatures"]), case["t"])
        rec.case("libsigner")
        if not out.accepted:
            rec.violation(boundary.mechanism("false-reject", "verify_signable[libsigner]", "accept", out), "replay", case)
