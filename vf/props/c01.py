"""C01 - threshold soundness."""
import random

from ..engines import envelope
from ..monitors import boundary, probes
from ..refs import canonjson, models, openpgp, schema

RULE = (
    "seeded generator of verify_signable cases stratified by (mode, threshold, authorized-list size, "
    "multiset of per-entry states, stratum); a case is non-trivial when at least one entry is present; "
    "distinct = distinct value of that tuple. 'sole:<filter>' strata have exactly t-1 counting signers "
    "plus one entry that would count if that filter alone were broken."
)
LIMITS = [
    "forged signatures are not constructed",
    "small-order / non-canonical public keys are excluded (conforming verifiers differ)",
    "payload size <= a few KB in quick tier",
]
ASSUMPTIONS = [
    "reference ed25519 (RFC 8032 vectors checked at start-up) and reference canonical serializer are correct",
    "hashlib.sha256/sha512 are correct",
]

N = {"quick": 1800, "thorough": 48000}
SHARDS = {"quick": 12, "thorough": 16}


def plan(tier, seed):
    n = SHARDS[tier]
    return [{"kind": "env", "count": N[tier] // n} for _ in range(n)]


def judge(case, rec, lib, probe=None):
    model, out, mutated, signable = envelope.evaluate(case, lib)
    rec.case(envelope.distinct_key(case), nontrivial=len(case["sigs"]) > 0)
    rec.hist("stratum", case["stratum"])
    rec.hist("model", model.v)
    rec.hist("outcome", "accept" if out.accepted else out.family)
    if out.accepted and model.v == models.REJECT:
        rec.violation(
            boundary.mechanism("unsound-accept", "verify_signable", "reject[%s]" % model.why, out)
            + "/stratum=" + case["stratum"],
            "accepted with %d counting signers (+%d grey) for threshold %r; model: %s"
            % (len(model.counted), len(model.grey_counted), case["threshold"], model.why),
            case,
        )
    if model.v == models.GREY:
        rec.count("grey_cases")
    if case["stratum"].startswith("sole:") and model.v == models.REJECT and not out.accepted:
        rec.count("sole_deciding_rejected:" + case["stratum"][5:])
    return model, out


def run_shard(spec, rec, lib):
    rng = random.Random(spec["seed"])
    pr = probes.PrimitiveProbe(lib)
    for i in range(spec["count"]):
        case = envelope.gen_case(rng)
        model, out = judge(case, rec, lib)
        # second run with the primitive probe on: inner invariants
        if i % 3 == 0:
            with pr:
                signable, authorized, threshold, gpg = envelope.materialise(case, lib)
                out2 = boundary.call(lib, lib.authentication.verify_signable, signable, authorized,
                                     threshold, gpg=gpg)
            if out2.kind != out.kind or out2.cls != out.cls:
                rec.count("probe_perturbed")
                pr.events.clear()
                continue
            check_primitive_events(case, signable, pr.events, rec, model, out2)
            pr.events.clear()
        if i < 2:
            rec.sample({"case": envelope.brief(case), "model": model.as_json(), "observed": out.as_json()})
    rec.count("probe_verify_events", pr.total)
    if pr.total == 0:
        rec.count("probe_unreached")


def check_primitive_events(case, signable, events, rec, model, out):
    """every successful primitive verification must be over the canonical bytes of the
    presented payload (raw) / their RFC 4880 digest with the entry's own header (gpg),
    under the key the entry is filed under"""
    data = models.payload_bytes(signable["signed"])
    if data is None:
        return
    for ev in events:
        if ev["ok"]:
            rec.count("probe_successful_verifications")
        khex = ev["key"].hex()
        entry = signable["signatures"].get(khex)
        good = False
        filed = False
        if entry is not None and isinstance(entry, dict) and isinstance(entry.get("signature"), str):
            try:
                sig_ok = bytes.fromhex(entry["signature"]) == ev["sig"]
            except ValueError:
                sig_ok = False
            if sig_ok:
                filed = True
                if case["gpg"]:
                    try:
                        exp = openpgp.digest(data, bytes.fromhex(entry["other_headers"]))
                    except Exception:
                        exp = None
                else:
                    exp = data
                good = exp is not None and exp == ev["data"]
        # a verification of the entry filed under this key must be over the canonical
        # payload bytes (whether or not it succeeded); a *successful* verification of
        # anything else must not lead to acceptance
        if (filed and not good) or (ev["ok"] and not good and out.accepted):
            rec.violation(
                "primitive-probe/verify_signable/verified-other-bytes-or-key",
                "a successful primitive verification used bytes/key that are not (canonical payload, "
                "entry filed under that key): key=%s datalen=%d" % (khex[:16], len(ev["data"])),
                case,
            )


def replay(case, rec, lib):
    judge(case, rec, lib)
