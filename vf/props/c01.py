"""C01 - threshold soundness."""
import random

from ..engines import envelope, hostile, inplace, noise, threads
from ..gen import keys as gkeys
from ..monitors import boundary, probes
from ..refs import canonjson, models, openpgp, schema

RULE = (
    "seeded generator of verify_signable cases stratified by (mode, threshold, authorized-list size, "
    "multiset of per-entry states, stratum); a case is non-trivial when at least one entry is present; "
    "distinct = distinct value of that tuple. 'sole:<filter>' strata have exactly t-1 counting signers "
    "plus one entry that would count if that filter alone were broken."
)
RULE_ADDENDUM = (
    "Additional classes: twins right after an acceptance (other payload, other mode, entries re-filed under other authorized key names); far thresholds (10..2**64) above several good signers; ten-or-more and crowded (11..257 entries under unauthorized keys) envelopes; the same case while standard output fails (only 'reject stays reject' judged); in-place histories; thread schedules with yield injection; unrelated library activity between cases."
)
RULE = RULE + " " + RULE_ADDENDUM
LIMITS = [
    "forged signatures are not constructed",
    "small-order / non-canonical public keys are excluded (conforming verifiers differ)",
    "payload size <= a few KB in quick tier",
]
ASSUMPTIONS = [
    "reference ed25519 (RFC 8032 vectors checked at start-up) and reference canonical serializer are correct",
    "hashlib.sha256/sha512 are correct",
]

N = {"quick": 6000, "thorough": 200000}
SHARDS = {"quick": 16, "thorough": 32}


def plan(tier, seed):
    n = SHARDS[tier]
    specs = [{"kind": "env", "count": N[tier] // n} for _ in range(n)]
    specs.append({"kind": "inplace", "count": 60 if tier == "quick" else 900})
    specs.append({"kind": "via_verifiers", "count": 1200 if tier == "quick" else 30000})
    for T in ([4, 8] if tier == "quick" else [2, 4, 8, 16, 16]):
        specs.append({"kind": "threads", "threads": T, "count": 300 if tier == "quick" else 2500})
    return specs


def judge(case, rec, lib, probe=None):
    model, out, mutated, signable = envelope.evaluate(case, lib)
    rec.case(envelope.distinct_key(case), nontrivial=len(case["sigs"]) > 0)
    rec.hist("stratum", case["stratum"])
    rec.hist("model", model.v)
    rec.hist("outcome", "accept" if out.accepted else out.family)
    if out.accepted and model.v == models.REJECT:
        rec.violation(
            boundary.mechanism("unsound-accept", "verify_signable", "reject[%s]" % model.why, out)
            + "/stratum=" + case["stratum"],
            "accepted with %d counting signers (+%d grey) for threshold %r; model: %s"
            % (len(model.counted), len(model.grey_counted), case["threshold"], model.why),
            case,
        )
    if model.v == models.GREY:
        rec.count("grey_cases")
    if case["stratum"].startswith("sole:") and model.v == models.REJECT and not out.accepted:
        rec.count("sole_deciding_rejected:" + case["stratum"][5:])
    return model, out


def other_payload(signed, rng):
    """a payload with another JSON value (and other canonical bytes)"""
    if type(signed) is dict:
        d = dict(signed)
        d["added-field"] = rng.randrange(10**6)
        return d
    if type(signed) is list:
        return list(signed) + [rng.randrange(10**6)]
    return {"wrapped": signed}


def run_inplace(spec, rec, lib):
    rng = random.Random(spec["seed"])
    for i in range(spec["count"]):
        for mech, msg, case in inplace.envelope_history(rng, lib, rec, steps=12):
            if "unsound-accept" in mech:
                rec.violation(mech, msg, case)
        rec.case("inplace|%d|%d" % (spec["seed"], i))
    rec.sample({"inplace_history": "long-lived envelope / key list mutated in place between verify_signable calls"})


def run_threads(spec, rec, lib):
    """schedules: concurrent verifications of genuine and forged envelopes must not share any tally"""
    rng = random.Random(spec["seed"])
    for case, model, out in threads.run(lib, rng, spec["count"], spec["threads"], rec, spec["seed"]):
        rec.case("thr|%d|%s" % (spec["threads"], envelope.distinct_key(case)))
        if out.accepted and model.v == models.REJECT:
            rec.violation("unsound-accept/verify_signable/under-threads",
                          "accepted under %d concurrent threads with %d counting signers for threshold %r (sequentially correct: the "
                          "verdict depends on what other threads verify)" % (spec["threads"], len(model.counted), case["threshold"]), case)
    rec.sample({"threads": spec["threads"], "calls": spec["count"]})


def run_via_verifiers(spec, rec, lib):
    """the same soundness through the callers of the envelope verifier: what verify_delegation / verify_root accept must have enough
    valid authorized signatures over the canonical bytes of exactly the payload PRESENTED (documents respelled after signing,
    whole numbers spelled as floats, calendar-boundary dates ...)"""
    from ..engines import delegation, rootchain

    rng = random.Random(spec["seed"])
    for i in range(spec["count"]):
        if i % 3 == 2:
            case = rootchain.gen_pair(rng)
            model, failed, out, _m = rootchain.evaluate(case, lib)
            fn, label = "verify_root", str(case.get("row"))
        else:
            case = delegation.gen_case(rng)
            model, failed, out, _m = delegation.evaluate(case, lib)
            fn, label = "verify_delegation", case["stratum"]
        rec.case("via|%s|%s|%s" % (fn, label, ",".join(sorted(failed))))
        rec.hist("via_verifier", fn)
        if out.accepted and model.v == models.REJECT and ("threshold" in failed or "old_rule" in failed or "new_rule" in failed):
            rec.violation("unsound-accept/%s/failed=%s" % (fn, ",".join(sorted(failed))),
                          "%s accepted although too few valid authorized signatures cover the payload presented (%s)" % (fn, model.why), case)


def run_shard(spec, rec, lib):
    if spec.get("kind") == "via_verifiers":
        return run_via_verifiers(spec, rec, lib)
    if spec.get("kind") == "threads":
        return run_threads(spec, rec, lib)
    if spec.get("kind") == "inplace":
        return run_inplace(spec, rec, lib)
    rng = random.Random(spec["seed"])
    pr = probes.PrimitiveProbe(lib)
    for i in range(spec["count"]):
        case = envelope.gen_case(rng)
        model, out = judge(case, rec, lib)
        if i % 25 == 7:
            noise.tick(lib, rng, spec.get("scratch"))
        if out.accepted and i % 2 == 0:
            # related neighbour, run adjacently in the same process: the very same signature
            # entries (which the library has just verified successfully) on another payload
            twin = dict(case, signed=other_payload(case["signed"], rng), stratum="twin:" + case["stratum"],
                        states=sorted(case["states"] + ["transplanted-after-accept"]))
            judge(twin, rec, lib)
            rec.count("related_twins_after_accept")
            # and the same entries under the other signature mode
            twin2 = dict(case, gpg=not case["gpg"], stratum="twin-mode:" + case["stratum"])
            judge(twin2, rec, lib)
            # and the same payload with the same (just verified) entries re-filed under OTHER key names, those names authorized
            fresh = [k.hex for k in (gkeys.key(40 + j) for j in range(len(case["sigs"]))) if k.hex not in case["authorized"]]
            if isinstance(case["authorized"], list) and fresh and all(isinstance(k, str) for k, _v in case["sigs"]):
                refiled = [(fresh[j % len(fresh)], v) for j, (k, v) in enumerate(case["sigs"]) if k in case["authorized"]][: len(fresh)]
                twin3 = dict(case, sigs=refiled, authorized=fresh, stratum="twin-refiled:" + case["stratum"],
                             states=sorted(["refiled-under-other-key-after-accept"] * len(refiled)))
                judge(twin3, rec, lib)
                rec.count("refiled_twins_after_accept")
        if i % 5 == 3:
            # the same call in a process whose standard output fails: a diagnostic print that raises must not
            # turn the rejection into an acceptance
            tw = dict(case, stdout=rng.choice(hostile.MODES), stratum="stdout-fails:" + case["stratum"])
            judge(tw, rec, lib)
            rec.count("failing_stdout_runs")
            rec.count("failing_stdout_write_attempts", tw.get("_stdout_write_attempts", 0))
        # second run with the probes on: inner invariants
        if i % 3 == 0:
            probe_pass(case, rec, lib, pr, model, out)
        if i < 2:
            rec.sample({"case": envelope.brief(case), "model": model.as_json(), "observed": out.as_json()})
    rec.count("probe_verify_events", pr.total)
    if pr.total == 0:
        rec.count("probe_unreached")


def probe_pass(case, rec, lib, pr, model, out):
    """run the case again with the primitive probe and the counted-signers probe attached"""
    lp = probes.LocalsProbe(getattr(lib.authentication.verify_signable, "__wrapped__", lib.authentication.verify_signable),
                            "good_sigs_from_trusted_keys")
    with pr, lp:
        signable, authorized, threshold, gpg = envelope.materialise(case, lib)
        out2 = boundary.call(lib, lib.authentication.verify_signable, signable, authorized,
                             threshold, gpg=gpg)
    got = None
    if lp.hits and lp.captures and lp.captures[-1] is not None:
        try:
            got = set(lp.captures[-1])
            if not all(isinstance(k, str) for k in got):
                got = None
        except TypeError:
            got = None
        if got is None:
            rec.count("probe_counted_signers_unrecognised_shape")
    if got is not None and model.v != models.GREY:
        rec.count("probe_counted_signer_sets")
        allowed = set(model.counted) | set(model.grey_counted)
        if not got <= allowed:
            rec.violation(
                "counted-signers-probe/verify_signable/counts-a-signer-the-model-does-not",
                "the set of counted signers contains %d key(s) that have no valid authorized signature filed under them"
                % len(got - allowed), case)
    elif not lp.hits:
        rec.count("probe_counted_signers_unreached")
    if out2.kind != out.kind or out2.cls != out.cls:
        rec.count("probe_perturbed")
        pr.events.clear()
        return
    check_primitive_events(case, signable, pr.events, rec, model, out2)
    pr.events.clear()


def check_primitive_events(case, signable, events, rec, model, out):
    """every successful primitive verification must be over the canonical bytes of the
    presented payload (raw) / their RFC 4880 digest with the entry's own header (gpg),
    under the key the entry is filed under"""
    data = models.payload_bytes(signable["signed"])
    if data is None:
        return
    for ev in events:
        if ev["ok"]:
            rec.count("probe_successful_verifications")
        khex = ev["key"].hex()
        entry = signable["signatures"].get(khex)
        good = False
        filed = False
        if entry is not None and isinstance(entry, dict) and isinstance(entry.get("signature"), str):
            try:
                sig_ok = bytes.fromhex(entry["signature"]) == ev["sig"]
            except ValueError:
                sig_ok = False
            if sig_ok:
                filed = True
                if case["gpg"]:
                    try:
                        exp = openpgp.digest(data, bytes.fromhex(entry["other_headers"]))
                    except Exception:
                        exp = None
                else:
                    exp = data
                good = exp is not None and exp == ev["data"]
        # a verification of the entry filed under this key must be over the canonical
        # payload bytes (whether or not it succeeded); a *successful* verification of
        # anything else must not lead to acceptance
        if (filed and not good) or (ev["ok"] and not good and out.accepted):
            rec.violation(
                "primitive-probe/verify_signable/verified-other-bytes-or-key",
                "a successful primitive verification used bytes/key that are not (canonical payload, "
                "entry filed under that key): key=%s datalen=%d" % (khex[:16], len(ev["data"])),
                case,
            )


def replay(case, rec, lib):
    if case.get("kind") in ("deleg", "rootpair"):
        from ..engines import delegation, rootchain

        eng = delegation if case["kind"] == "deleg" else rootchain
        model, failed, out, _m = eng.evaluate(case, lib)
        rec.case("replay")
        if out.accepted and model.v == models.REJECT:
            rec.violation("unsound-accept/%s/failed=%s" % ("verify_delegation" if case["kind"] == "deleg" else "verify_root", ",".join(sorted(failed))), model.why, case)
        return
    if case.get("kind") == "inplace_env":
        print("history-dependent witness (ops: %s); re-running in-place histories" % "->".join(case["ops"]))
        run_inplace({"seed": 1, "count": 200}, rec, lib)
        return
    model, out = judge(case, rec, lib)
    probe_pass(case, rec, lib, probes.PrimitiveProbe(lib), model, out)
