"""C15 - leaf format validators decide exact grammars; one spelling per key."""
import random

from ..engines import noise
from ..gen import caselang, jsonvals, keys as gkeys
from ..monitors import boundary
from ..refs import schema

RULE = (
    "strings of lengths around 40/64/128 over hostile alphabets (upper case, every ASCII whitespace/control char, prefixes, "
    "signs, underscores, non-ASCII digits/letters, combining marks, lone surrogates, NUL) at first/middle/last position, "
    "random Unicode strings, non-string Python values, signature-entry dictionaries over every key subset with good/bad values, "
    "key lists with duplicates; oracle = ASCII regular expressions. distinct = (validator, input) pairs; non-trivial = input is not "
    "None/empty."
)
RULE_ADDENDUM = (
    'Additional: siblings of a value right after it was accepted, repeat-after-reject, key lists whose length errors cancel out, validators under threads.'
)
RULE = RULE + " " + RULE_ADDENDUM
LIMITS = ["objects with hostile dunder methods are out of scope", "str/dict subclasses are grey (tallied, not judged)"]
ASSUMPTIONS = ["the documented grammars are ^[0-9a-f]{64|128|40}$ and the two entry shapes of the docstrings"]

HOSTILE = (
    list("ABCDEFGXZgz") + list(" \t\n\r\x0b\x0c\x00\x1f\x7f\x85\xa0")
    + list("+-_.,:;/\\'\"xX")
    + ["٠", "١", "۱", "０", "１", "ａ", "Ａ", "а", "е", "с",  # digits / look-alikes
       "²", "¹", "①", "०", "\U0001d7d8", "\U0001d7ce", "́", "​", "‍", "﻿",
       "\ud800", "\udc00", "\udfff", "K", "ſ", "ß", "ẞ", "ı", "é", "\U0001f600"]
)

LENGTHS = [0, 1, 2, 3, 38, 39, 40, 41, 42, 62, 63, 64, 65, 66, 126, 127, 128, 129, 130, 256]

STR_FUNCS = [
    # (dotted name, oracle, kind) kind: 'pred' -> bool; 'raiser' -> return/raise
    ("common.is_hex_string", schema.hex_string, "pred"),
    ("common.checkformat_hex_string", schema.hex_string, "raiser"),
    ("common.is_hex_key", schema.hex_key, "pred"),
    ("common.checkformat_hex_key", schema.hex_key, "raiser"),
    ("common.is_hex_signature", schema.hex_signature, "pred"),
    ("common.is_gpg_fingerprint", schema.gpg_fingerprint, "pred"),
    ("common.checkformat_gpg_fingerprint", schema.gpg_fingerprint, "raiser"),
]
ENTRY_FUNCS = [
    ("common.is_gpg_signature", schema.gpg_signature, "pred"),
    ("common.checkformat_gpg_signature", schema.gpg_signature, "raiser"),
    ("common.is_signature", schema.signature, "pred"),
    ("common.checkformat_signature", schema.signature, "raiser"),
    ("common.checkformat_any_signature", schema.any_signature, "raiser"),
]
LIST_FUNCS = [("common.checkformat_list_of_hex_keys", schema.list_of_hex_keys, "raiser")]
PAIRS = [
    ("common.is_hex_string", "common.checkformat_hex_string"),
    ("common.is_hex_key", "common.checkformat_hex_key"),
    ("common.is_gpg_fingerprint", "common.checkformat_gpg_fingerprint"),
    ("common.is_gpg_signature", "common.checkformat_gpg_signature"),
    ("common.is_signature", "common.checkformat_signature"),
]

NONSTR = [None, True, False, 0, 1, 64, 1.5, [], {}, ["ab"], {"a": 1}] + [
    {"$py": n} for n in ("object", "complex", "decimal_1", "set_ab", "range3", "function", "bytes_empty", "tuple_empty",
                         "memoryview", "datetime")
] + [{"$py": "bytes", "hex": "ab" * 32}, {"$py": "bytes", "hex": "61" * 64}, {"$py": "bytearray", "hex": "61" * 64},
     {"$py": "tuple", "items": ["ab"]}, {"$py": "strsub", "v": "ab" * 32}, {"$py": "strsub", "v": "AB"}] + [
    {"$py": t, "n": n} for t in ("listn", "dictn", "bytesn", "tuplen") for n in (40, 64, 128)]


def plan(tier, seed):
    n = 16 if tier == "thorough" else 8
    per = 10000 if tier == "quick" else 150000
    specs = [{"kind": "strings", "count": per} for _ in range(n)]
    specs.append({"kind": "entries", "count": 3000 if tier == "quick" else 60000})
    specs.append({"kind": "lists", "count": 800 if tier == "quick" else 20000})
    specs.append({"kind": "systematic"})
    specs.append({"kind": "named_extras"})
    specs.append({"kind": "after_activity", "count": 40 if tier == "quick" else 1500})
    for T in ([4] if tier == "quick" else [2, 4, 8, 16]):
        specs.append({"kind": "threads", "threads": T, "count": 1500 if tier == "quick" else 20000})
    return specs


def gen_string(rng):
    r = rng.random()
    n = rng.choice(LENGTHS)
    base = "".join(rng.choice("0123456789abcdef") for _ in range(n))
    if r < 0.12:
        return base, "valid-alphabet"
    if r < 0.2:
        return jsonvals.rand_string(rng, 70), "random-unicode"
    if not base:
        return rng.choice(HOSTILE), "single-hostile"
    ch = rng.choice(HOSTILE)
    pos = rng.choice(["first", "middle", "last"])
    i = {"first": 0, "middle": len(base) // 2, "last": len(base) - 1}[pos]
    if r < 0.6:
        s = base[:i] + ch + base[i + 1:]  # replace: keeps the length
        kind = "replace"
    elif r < 0.85:
        if pos == "last":
            s = base + ch
        else:
            s = base[:i] + ch + base[i:]
        kind = "insert"
    else:
        s = base[:i] + ch + ch + base[i + 2:]
        kind = "replace2"
    return s, "%s-%s" % (kind, pos)


def judge(dotted, oracle, kind, arg_case, rec, lib, cls=""):
    if not lib.has(dotted):
        rec.count("missing:" + dotted)
        return None
    arg = caselang.dec(arg_case, lib)
    exp = oracle(arg)
    fn = lib.fn(dotted)
    out = boundary.call(lib, fn, arg)
    trivial = arg is None or arg == "" or arg == {}
    rec.case("%s|%s" % (dotted, boundary.fingerprint(arg)), nontrivial=not trivial)
    rec.hist("fn", dotted.split(".")[1])
    rec.hist("oracle", exp)
    case = {"kind": "leaf", "fn": dotted, "arg": arg_case, "vkind": kind}
    if kind == "pred":
        if not out.accepted:
            rec.violation(boundary.mechanism("predicate-raises", dotted, "bool", out),
                          "predicate raised instead of returning a bool", case)
            return out
        if type(out.value) is not bool:
            rec.violation("predicate-nonbool/%s" % dotted, "predicate returned %r" % (out.value,), case)
            return out
        acc = out.value
    else:
        acc = out.accepted
        if not acc and out.family not in ("TypeError", "ValueError"):
            rec.violation(boundary.mechanism("undocumented-error", dotted, "TypeError|ValueError", out),
                          "validator raised %s: %s" % (out.cls, (out.msg or "")[:120]), case)
    if exp == schema.G:
        rec.count("grey")
        rec.hist("grey_outcome", "%s:%s" % (dotted.split(".")[1], "accept" if acc else "reject"))
    elif exp == schema.A and not acc:
        rec.violation("grammar/%s/rejects-wellformed%s" % (dotted, cls), "well-formed input rejected", case)
    elif exp == schema.R and acc:
        rec.violation("grammar/%s/accepts-malformed%s" % (dotted, "/" + cls if cls else ""), "malformed input accepted", case)
    elif exp == schema.R and rec.evaluations % 4 == 0:
        # the same malformed value offered again right after its rejection
        o2 = boundary.call(lib, fn, caselang.dec(arg_case, lib))
        rec.count("repeats_after_reject")
        if (o2.accepted and o2.value is True) if kind == "pred" else o2.accepted:
            rec.violation("grammar/%s/accepts-malformed/on-repeat" % dotted, "malformed input rejected the first time, accepted when offered again", case)
    return acc


def pair_agreement(arg_case, rec, lib):
    arg = caselang.dec(arg_case, lib)
    for p, r in PAIRS:
        if not (lib.has(p) and lib.has(r)):
            continue
        op = boundary.call(lib, lib.fn(p), arg)
        orr = boundary.call(lib, lib.fn(r), caselang.dec(arg_case, lib))
        rec.count("pair_checks")
        if op.accepted and type(op.value) is bool and op.value != orr.accepted:
            rec.violation("pair-disagreement/%s-vs-%s" % (p, r),
                          "predicate says %r, raising form %s" % (op.value, orr.brief()),
                          {"kind": "pair", "arg": arg_case})


def run_strings(spec, rec, lib):
    rng = random.Random(spec["seed"])
    accepted_keys = {}
    for i in range(spec["count"]):
        if rng.random() < 0.04:
            a, cls = rng.choice(NONSTR), "nonstring"
        else:
            a, cls = gen_string(rng)
        rec.hist("input_class", cls)
        any_acc = False
        for dotted, oracle, kind in STR_FUNCS:
            acc = judge(dotted, oracle, kind, a, rec, lib, "")
            any_acc = any_acc or acc is True
            if dotted == "common.is_hex_key" and acc is True and isinstance(a, str):
                try:
                    b = bytes.fromhex(a)
                except ValueError:
                    b = None
                prev = accepted_keys.get(b)
                if prev is not None and prev != a:
                    rec.violation("one-spelling/is_hex_key/two-accepted-strings-same-bytes",
                                  "%r and %r both accepted, same key bytes" % (prev, a),
                                  {"kind": "leaf", "fn": dotted, "arg": a, "vkind": "pred"})
                accepted_keys[b] = a
        if any_acc and isinstance(a, str) and i % 2 == 0:
            # respellings of a string that has just been accepted, in the same process
            for sb in (a + "\n", a.upper(), " " + a, a + " ", a[:-1], a + "0", "0x" + a, a.encode("ascii", "replace"), [a], a + "\x00"):
                rec.count("siblings_after_accept")
                for dotted, oracle, kind in STR_FUNCS:
                    judge(dotted, oracle, kind, sb if not isinstance(sb, bytes) else {"$py": "bytes", "hex": sb.hex()}, rec, lib, "after-accepting-a-sibling")
        if i % 5 == 0:
            pair_agreement(a, rec, lib)
        if i % 200 == 17:
            noise.tick(lib, rng, spec.get("scratch"))
        if i < 2:
            rec.sample({"input": a, "class": cls})
    rec.count("accepted_key_strings", len(accepted_keys))


GOOD = {
    "signature": lambda r: "%0128x" % r.getrandbits(512),
    "other_headers": lambda r: "04001608001d1621" + "%040x" % r.getrandbits(160),
    "see_also": lambda r: "%040x" % r.getrandbits(160),
    "extra": lambda r: "x",
}


def bad_value(field, rng):
    r = rng.random()
    good = GOOD[field](rng)
    if r < 0.2:
        return rng.choice(NONSTR)
    if r < 0.3:
        return good.upper() if good.upper() != good else good + "A"
    if r < 0.45:
        return good + "0"
    if r < 0.6:
        return good[:-1]
    if r < 0.7:
        return ""
    if r < 0.85:
        i = rng.randrange(len(good))
        return good[:i] + rng.choice(HOSTILE) + good[i + 1:]
    return " " + good


def run_entries(spec, rec, lib):
    rng = random.Random(spec["seed"])
    fields = ["signature", "other_headers", "see_also", "extra"]
    for i in range(spec["count"]):
        r = rng.random()
        if r < 0.06:
            e = rng.choice(NONSTR)
            cls = "nondict"
        else:
            mask = rng.randrange(16)
            e = {}
            nbad = 0
            for j, f in enumerate(fields):
                if mask & (1 << j):
                    if rng.random() < 0.25:
                        e[f] = bad_value(f, rng)
                        nbad += 1
                    else:
                        e[f] = GOOD[f](rng)
            if rng.random() < 0.05:
                e[rng.choice(["Signature", "signature ", "sig", "keyid", ""])] = GOOD["signature"](rng)
            if rng.random() < 0.03:
                e = {"$py": "dictsub", "v": e}
            cls = "mask%d/bad%d" % (mask, nbad)
        rec.hist("entry_class", cls)
        accepted_somewhere = False
        for dotted, oracle, kind in ENTRY_FUNCS:
            if judge(dotted, oracle, kind, e, rec, lib) is True:
                accepted_somewhere = True
        if i % 3 == 0:
            pair_agreement(e, rec, lib)
        if accepted_somewhere and type(e) is dict:
            # related neighbours right after an acceptance (same process): entries that share every field VALUE with the one
            # just accepted but not its shape - nothing remembered about the accepted entry may vouch for them
            sibs = [dict(e, comment="x"), dict(e, **{"": None}), dict(reversed(list(e.items())))]
            for opt in ("other_headers", "see_also"):
                if opt not in e:
                    sibs.append(dict(e, **{opt: None}))
                    sibs.append(dict(e, **{opt: ""}))
            if "see_also" in e:
                sibs.append({k: v for k, v in e.items() if k != "other_headers"})
            sibs.append({k: v for k, v in e.items() if k != "signature"})
            sibs.append(list(e.items()))
            sibs.append({"$py": "tuple", "items": [[k, v] for k, v in e.items()]})
            for sb in sibs:
                rec.count("siblings_after_accept")
                for dotted, oracle, kind in ENTRY_FUNCS:
                    judge(dotted, oracle, kind, sb, rec, lib, "after-accepting-a-sibling")
        if i < 2:
            rec.sample({"entry": e})


def run_lists(spec, rec, lib):
    rng = random.Random(spec["seed"])
    for i in range(spec["count"]):
        n = rng.randint(0, 5)
        ks = [gkeys.junk_hexkey(rng) for _ in range(n)]
        r = rng.random()
        cls = "distinct"
        if r < 0.25 and ks:
            ks.append(rng.choice(ks))
            cls = "exact-duplicate"
        elif r < 0.5 and ks:
            ks.append(rng.choice(gkeys.respellings(rng.choice(ks))))
            cls = "respelled-duplicate"
        elif r < 0.6:
            ks.append(rng.choice(NONSTR))
            cls = "nonstring-member"
        elif r < 0.65:
            ks = {"$py": "tuple", "items": ks}
            cls = "tuple"
        elif r < 0.7:
            ks = rng.choice(NONSTR)
            cls = "nonlist"
        elif r < 0.8:
            # wrong-length lower-case hex entries whose length errors cancel out over the list (the list as a whole has the right
            # number of hex digits; no single entry is a key)
            h = lambda m: "".join(rng.choice("0123456789abcdef") for _ in range(m))  # noqa: E731
            d = rng.choice([1, 2, 3, 32, 61, 63, 64])
            ks = rng.choice([[h(64 - d), h(64 + d)], [h(64 + d), h(64 - d)], [h(64 - d), h(64), h(64 + d)], ["", h(128)], [h(128), ""],
                             [h(32), h(32), h(64), h(128)], [h(64), h(63), h(64), h(65)], [h(2), h(126)]])
            cls = "lengths-cancel-out"
        if isinstance(ks, list):
            rng.shuffle(ks)
        rec.hist("list_class", cls)
        for dotted, oracle, kind in LIST_FUNCS:
            judge(dotted, oracle, kind, ks, rec, lib)


def run_systematic(spec, rec, lib):
    """every hostile character at every position class of every boundary length"""
    rng = random.Random(spec["seed"])
    # strings without any cased character / without any digit are perfectly good hex
    for n in (2, 40, 64, 128):
        for alphabet in ("0123456789", "abcdef", "0", "f", "09", "af"):
            s0 = "".join(rng.choice(alphabet) for _ in range(n))
            for dotted, oracle, kind in STR_FUNCS:
                judge(dotted, oracle, kind, s0, rec, lib)
            for fld, good in (("see_also", {"other_headers": "04", "signature": "ab" * 64}),):
                if n == 40:
                    for dotted, oracle, kind in ENTRY_FUNCS:
                        judge(dotted, oracle, kind, dict(good, see_also=s0), rec, lib)
            if n == 128:
                for dotted, oracle, kind in ENTRY_FUNCS:
                    judge(dotted, oracle, kind, {"signature": s0}, rec, lib)
                    judge(dotted, oracle, kind, {"signature": s0, "other_headers": "".join(rng.choice(alphabet) for _ in range(8))}, rec, lib)
    for n in (40, 64, 128, 2, 4):
        base = "".join(rng.choice("0123456789abcdef") for _ in range(n))
        for ch in HOSTILE + [chr(c) for c in range(0, 0x30)] + [chr(c) for c in range(0x3a, 0x61)] + [chr(c) for c in range(0x67, 0xA1)]:
            for i in (0, n // 2, n - 1):
                for s in (base[:i] + ch + base[i + 1:], base[:i] + ch + base[i:], base + ch, ch + base):
                    for dotted, oracle, kind in STR_FUNCS:
                        judge(dotted, oracle, kind, s, rec, lib)
        for delta in (-2, -1, 0, 1, 2):
            s = (base * 2)[: n + delta]
            for dotted, oracle, kind in STR_FUNCS:
                judge(dotted, oracle, kind, s, rec, lib)
            pair_agreement(s, rec, lib)
    for a in NONSTR:
        for dotted, oracle, kind in STR_FUNCS + ENTRY_FUNCS + LIST_FUNCS:
            judge(dotted, oracle, kind, a, rec, lib)
        pair_agreement(a, rec, lib)
    rec.sample({"systematic": "hostile char x position x length sweep", "chars": len(HOSTILE)})


def run_named_extras(spec, rec, lib):
    """the two entry shapes admit NO further member - whatever its name.  Every member name the library's own code mentions
    (gen.vocab) is offered as a third / fourth member of otherwise perfect entries; first in a fresh process, then again after
    every kind of unrelated activity - including calls made with each switchable option on - has happened in it"""
    from ..gen import vocab

    rng = random.Random(spec["seed"])
    names = vocab.learn(lib.pkg_dir)["names"] + ["extra", "keyid", "alg", "comment"]
    rec.count("member_names_learned_from_library_code", len(names))
    raw = {"signature": GOOD["signature"](rng)}
    pgp = {"signature": GOOD["signature"](rng), "other_headers": GOOD["other_headers"](rng)}
    pgp3 = dict(pgp, see_also=GOOD["see_also"](rng))
    for phase in ("fresh", "after-activity"):
        if phase == "after-activity":
            noise.provoke(lib, rng, spec.get("scratch"))
            rec.count("switchable_options_exercised_by_noise", len(noise.OPTIONS_SEEN))
        for n in names:
            for base in (raw, pgp, pgp3):
                for v in ("x", GOOD["signature"](rng), 1):
                    e = dict(base, **{n: v})
                    rec.count("entries_with_a_named_extra_member")
                    for dotted, oracle, kind in ENTRY_FUNCS:
                        judge(dotted, oracle, kind, e, rec, lib, "named-extra/" + phase)
        # ... and the plain shapes are still what they were
        for base in (raw, pgp, pgp3):
            for dotted, oracle, kind in ENTRY_FUNCS:
                judge(dotted, oracle, kind, dict(base), rec, lib, "plain/" + phase)
    rec.sample({"named_extras": "%d names x 3 shapes x 3 values x 2 phases" % len(names)})


def run_after_activity(spec, rec, lib):
    """the grammars are functions of the input alone: after keys have been loaded, used for signing and verified in this
    process, every other spelling of those very keys / signatures is still rejected"""
    from ..refs import canonjson, ed25519

    rng = random.Random(spec["seed"])
    C, S, A = lib.common, lib.signing, lib.authentication
    for n in range(spec["count"]):
        k = gkeys.key(n % 12) if n < 12 else gkeys.rand_key(rng)
        # activity: load, sign, verify with the canonical spelling
        try:
            C.PublicKey.from_hex(k.hex)
            priv = C.PrivateKey.from_hex(k.seed.hex())
            env = S.wrap_as_signable({"n": n})
            S.sign_signable(env, priv)
            A.verify_signable(env, [k.hex], 1)
            sig = env["signatures"][k.hex]["signature"]
        except Exception:
            rec.count("activity_failed")
            continue
        rec.count("activity_rounds")
        for base in (k.hex, k.seed.hex()):
            for sp in gkeys.respellings(base) + [base[:32] + " " + base[32:], base[:2] + "\t" + base[2:], base.upper()[:2] + base[2:]]:
                for dotted, oracle, kind in STR_FUNCS:
                    judge(dotted, oracle, kind, sp, rec, lib)
                for dotted, oracle, kind in LIST_FUNCS:
                    judge(dotted, oracle, kind, [base, sp], rec, lib)
                o = boundary.call(lib, C.checkformat_delegation, {"pubkeys": [base, sp], "threshold": 2})
                rec.case("after|deleg|%s" % boundary.fingerprint(sp))
                if o.accepted:
                    rec.violation("one-spelling/checkformat_delegation/accepts-two-spellings-of-one-key-after-activity",
                                  "delegation listing %r and %r accepted" % (base[:12], sp[:14]), {"kind": "leaf", "fn": "common.checkformat_list_of_hex_keys", "arg": [base, sp], "vkind": "raiser"})
        # one signer must never meet threshold 2 through a second spelling of its key
        for sp in (k.hex.upper(), k.hex[:32] + " " + k.hex[32:], " " + k.hex):
            e2 = {"signatures": {k.hex: dict(env["signatures"][k.hex]), sp: dict(env["signatures"][k.hex])}, "signed": env["signed"]}
            o = boundary.call(lib, A.verify_signable, e2, [k.hex, sp], 2)
            rec.case("after|verify2|%s" % boundary.fingerprint(sp))
            if o.accepted:
                rec.violation("one-spelling/verify_signable/one-key-counts-twice-under-two-spellings",
                              "threshold 2 met by one signer filed under %r and %r" % (k.hex[:12], sp[:14]), {"kind": "pair", "arg": sp})
        for sg in (sig.upper(), sig + "\n", sig[:64] + " " + sig[64:]):
            for dotted, oracle, kind in STR_FUNCS[4:5]:
                judge(dotted, oracle, kind, sg, rec, lib)
            judge("common.is_signature", schema.signature, "pred", {"signature": sg}, rec, lib)
    rec.sample({"after_activity": "respellings of keys/signatures re-validated after the canonical spelling was loaded, used and verified"})


def run_threads(spec, rec, lib):
    """a validator's verdict on a value does not depend on what other threads validate at the same time"""
    from ..engines import threads

    rng = random.Random(spec["seed"])
    jobs, meta = [], []
    while len(jobs) < spec["count"]:
        if rng.random() < 0.6:
            a, _cls = gen_string(rng)
            dotted, oracle, kind = rng.choice(STR_FUNCS)
        else:
            e = {"signature": GOOD["signature"](rng)}
            if rng.random() < 0.5:
                e["other_headers"] = GOOD["other_headers"](rng)
                if rng.random() < 0.5:
                    e["see_also"] = GOOD["see_also"](rng)
            if rng.random() < 0.4:
                f = rng.choice(list(e))
                e[f] = bad_value(f, rng)
            if rng.random() < 0.15:
                e["extra"] = "x"
            a = e
            dotted, oracle, kind = rng.choice(ENTRY_FUNCS)
        if not lib.has(dotted):
            continue
        arg = caselang.dec(a, lib)
        jobs.append((lib.fn(dotted), (arg,), {}))
        meta.append((dotted, kind, a, oracle(arg)))
    res = threads.run_calls(lib, jobs, spec["threads"], rec, spec["seed"], prob=0.1, label="leaf validators")
    if res is None:
        return
    for (dotted, kind, a, exp), out in zip(meta, res):
        if out is None:
            continue
        rec.case("thr|%s|%s" % (dotted, boundary.fingerprint(a)))
        acc = (out.accepted and out.value is True) if kind == "pred" else out.accepted
        case = {"kind": "leaf", "fn": dotted, "arg": a, "vkind": kind}
        if exp == schema.A and not acc:
            rec.violation("grammar/%s/rejects-wellformed/under-threads" % dotted, "well-formed input rejected while other threads were validating", case)
        elif exp == schema.R and acc:
            rec.violation("grammar/%s/accepts-malformed/under-threads" % dotted, "malformed input accepted while other threads were validating", case)


def run_shard(spec, rec, lib):
    if spec["kind"] == "threads":
        return run_threads(spec, rec, lib)
    if spec["kind"] == "after_activity":
        return run_after_activity(spec, rec, lib)
    if spec["kind"] == "named_extras":
        return run_named_extras(spec, rec, lib)
    {"strings": run_strings, "entries": run_entries, "lists": run_lists, "systematic": run_systematic}[spec["kind"]](spec, rec, lib)


def finish(merged, tier, seed):
    miss = [k for k in merged.counters if k.startswith("missing:")]
    if miss:
        merged.inconclusive_because("public validators not found: " + ",".join(sorted(miss)))


def replay(case, rec, lib):
    if case["kind"] == "leaf":
        table = {d: (o, k) for d, o, k in STR_FUNCS + ENTRY_FUNCS + LIST_FUNCS}
        o, k = table[case["fn"]]
        judge(case["fn"], o, k, case["arg"], rec, lib)
    else:
        pair_agreement(case["arg"], rec, lib)
