"""C08 - persisting metadata never changes its trust status."""
import copy
import json
import os
import random
import types

from .. import lib as vlib
from ..gen import jsonvals, keys as gkeys, metadata as gmd
from ..monitors import boundary, gnupg
from ..refs import canonjson, ed25519, models, openpgp
from . import c07, c11, c18

RULE = (
    "histories over one file: write / load / sign_signable in memory + write / sign_root_metadata_via_gpg (stub signer; real GnuPG "
    "in one shard) / sign_all_in_repodata, 8 (quick) to 20 (thorough) steps, payloads from the hostile JSON domain (floats, "
    "NaN/Infinity, lone surrogates, 4000-digit integers, nesting). After each step the offline checker asserts: file bytes == "
    "reference canonical bytes of the in-memory value; loaded value == in-memory value; the vector of verdicts over a fixed panel "
    "of (key subset, threshold, mode) is unchanged by write/load cycles and only grows (accept stays accept) when a signature is "
    "added; entries present before an add-signature step are byte-identical after it. distinct = (op sequence, payload class); "
    "non-trivial = history contains >= 1 add-signature step after a reload."
)
LIMITS = ["adjacent high+low surrogate pairs written as two code units are outside the parser-value domain (skipped)",
          "histories of at most 20 steps"]
ASSUMPTIONS = ["reference serializer / signers / threshold model"]

OPS = ["write", "load", "sign_mem", "sign_mem", "gpg_file", "gpg_file_wide", "rewrite_loaded", "load", "write_after_variant", "external_replace",
       "reload_discarding_changes", "reload_discarding_changes"]


def plan(tier, seed):
    q = tier == "quick"
    specs = [{"kind": "hist", "count": 50 if q else 500, "steps": 8 if q else 20} for _ in range(12 if q else 24)]
    specs.append({"kind": "repodata", "count": 6 if q else 100})
    specs.append({"kind": "gnupg_hist", "count": 2 if q else 20, "shim": True})
    specs.append({"kind": "values", "count": 300 if q else 8000})
    specs.append({"kind": "same_file", "count": 30 if q else 600})
    specs.append({"kind": "cli_session", "count": 12 if q else 300})
    specs.append({"kind": "neighbours", "count": 12 if q else 300})
    return specs


def panel(lib, env, keys, rec):
    """verdict vector over a fixed panel"""
    A = lib.authentication
    vec = []
    subsets = [[k.hex] for k in keys] + [[k.hex for k in keys]]
    for gpg in (False, True):
        for sub in subsets:
            for t in range(1, len(sub) + 1):
                o = boundary.call(lib, A.verify_signable, copy.deepcopy(env), list(sub), t, gpg=gpg)
                vec.append("A" if o.accepted else o.cls)
                rec.count("panel_verifications")
    return vec


def model_panel(env, keys):
    vec = []
    subsets = [[k.hex] for k in keys] + [[k.hex for k in keys]]
    for gpg in (False, True):
        for sub in subsets:
            for t in range(1, len(sub) + 1):
                m = models.threshold_verdict(env, list(sub), t, gpg)
                vec.append(m.v)
    return vec


def run_history(case, rec, lib, scratch, real_gpg_fpr=None):
    C, S, R = lib.common, lib.signing, lib.root_signing
    rng = random.Random(case["rseed"])
    payload = case["payload"]
    keys = [gkeys.from_seed_hex(h) for h in case["seeds"]]
    gpgkey = gkeys.key(4)
    allkeys = keys + [gpgkey]
    fn = os.path.join(scratch, "md.json")
    mem = S.wrap_as_signable(payload)
    for jk, jv in case.get("junk", []):
        mem["signatures"][jk] = copy.deepcopy(jv)
    vfp = boundary.value_fingerprint
    # stub GnuPG signer
    saved = (getattr(R, "gpg_funcs", None), R.SSLIB_AVAILABLE)
    if real_gpg_fpr is None:
        ns, fpr = c18.make_stub_gpg(lib, gpgkey)
        R.gpg_funcs, R.SSLIB_AVAILABLE = ns, True
        gq = gpgkey.hex
    else:
        fpr = real_gpg_fpr
        gq = gnupg.SHIPPED[fpr]
        allkeys = keys + [types.SimpleNamespace(hex=gq)]
    on_disk = False
    on_disk_ever = False
    prev_panel = None
    signed_after_reload = False
    reloaded = False
    ops_done = []
    try:
        for step, op in enumerate(case["ops"]):
            before_entries = {k: boundary.fingerprint(v) for k, v in mem["signatures"].items()}
            added = False
            external = False
            if op == "reload_discarding_changes" and on_disk_ever:
                # the caller drops its (possibly modified, unsaved) copy and loads the file again: what comes back is
                # what the FILE holds, whatever was done to earlier loaded objects
                fb = open(fn, "rb").read()
                l = boundary.call(lib, C.load_metadata_from_file, fn)
                ops_done.append("reload")
                rec.count("reloads_discarding_changes")
                if not l.accepted or canonjson.canon(l.value) != canonjson.canon(json.loads(fb)):
                    rec.violation("roundtrip/load_metadata_from_file/returns-other-than-file-content",
                                  "loading the unchanged file again returned a value that is not what the file holds "
                                  "(earlier in-memory edits of a previously loaded object leaked into it)", case)
                    return
                mem = l.value
                on_disk = True
                reloaded = True
                prev_panel = None  # the in-memory envelope was replaced: panel continuity restarts here
                continue
            if op == "gpg_file_wide":
                # the stored file is valid JSON in another (wider) layout, e.g. hand-edited or written by another tool;
                # signing it in place must still leave exactly the canonical form of the signed envelope
                with open(fn, "wb") as f:
                    f.write(json.dumps(mem, indent=rng.choice([8, 12]), sort_keys=rng.random() < 0.5).encode() + b"\n" * rng.randint(0, 3))
                on_disk = True
                op = "gpg_file"
            if op == "external_replace":
                # another writer (atomic temp-file + rename, or a plain write) replaces the file with a NEW value
                # under the same name; the next load must return what the file holds now
                other = {"signatures": copy.deepcopy(mem["signatures"]), "signed": mem["signed"]}
                k = rng.choice(keys)
                boundary.call(lib, S.sign_signable, other, C.PrivateKey.from_bytes(k.seed))
                other["signatures"]["%064x" % rng.getrandbits(256)] = {"signature": "%0128x" % rng.getrandbits(512)}
                if rng.random() < 0.5:
                    with open(fn + ".tmp", "wb") as f:
                        f.write(canonjson.canon(other))
                    os.replace(fn + ".tmp", fn)
                else:
                    with open(fn, "wb") as f:
                        f.write(canonjson.canon(other))
                mem = other
                on_disk = True
                external = True
                op = "load"
            if op == "write_after_variant":
                # the path currently holds an ==-equal sibling (numeric flavour changed) with the same signature map
                vs = flavour_variants(mem["signed"], rng)
                if vs:
                    sib = {"signatures": copy.deepcopy(mem["signatures"]), "signed": rng.choice(vs)}
                    with open(fn, "wb") as f:
                        f.write(canonjson.canon(sib))
                op = "write"
            if op == "write" or (op in ("load", "gpg_file", "rewrite_loaded") and not on_disk):
                o = boundary.call(lib, C.write_metadata_to_file, mem, fn)
                if not o.accepted:
                    rec.violation(boundary.mechanism("persist", "write_metadata_to_file", "return", o), "write failed", case)
                    return
                on_disk = True
                on_disk_ever = True
                ops_done.append("write")
                fb = open(fn, "rb").read()
                rec.count("file_byte_checks")
                if fb != canonjson.canon(mem):
                    rec.violation("file-bytes/write_metadata_to_file/not-canonical-bytes-of-value", "file written is not the canonical form of the value", case)
                    return
            if op == "load":
                o = boundary.call(lib, C.load_metadata_from_file, fn)
                ops_done.append("load")
                if not o.accepted or vfp(o.value) != vfp(mem):
                    rec.violation("roundtrip/load_metadata_from_file/loaded-value-differs", "load(write(v)) != v (%s)" % o.brief(), case)
                    return
                if canonjson.canon(o.value) != canonjson.canon(mem):
                    rec.violation("roundtrip/load_metadata_from_file/canonical-bytes-differ", "canonical bytes changed across write+load", case)
                    return
                mem = o.value
                reloaded = True
                rec.count("loads")
            elif op == "rewrite_loaded":
                o = boundary.call(lib, C.load_metadata_from_file, fn)
                if o.accepted:
                    b0 = open(fn, "rb").read()
                    C.write_metadata_to_file(o.value, fn)
                    ops_done.append("rewrite")
                    if open(fn, "rb").read() != b0:
                        rec.violation("fixpoint/write-load-write/file-bytes-change", "writing what was loaded changes the file", case)
                        return
            elif op == "sign_mem":
                k = rng.choice(keys)
                o = boundary.call(lib, S.sign_signable, mem, C.PrivateKey.from_bytes(k.seed))
                ops_done.append("sign_mem")
                added = True
                on_disk = False
                if not o.accepted:
                    rec.violation(boundary.mechanism("sign", "sign_signable", "return", o), "signing failed", case)
                    return
                if reloaded:
                    signed_after_reload = True
            elif op == "gpg_file":
                o = boundary.call(lib, R.sign_root_metadata_via_gpg, fn, fpr)
                ops_done.append("gpg_file")
                added = True
                if not o.accepted:
                    if real_gpg_fpr is not None and o.cls in ("CommandError", "TimeoutExpired"):
                        rec.count("gnupg_shim_failures")
                        return
                    rec.violation(boundary.mechanism("sign", "sign_root_metadata_via_gpg", "return", o), "GPG-path file signing failed: %s" % (o.msg or "")[:100], case)
                    return
                fb = open(fn, "rb").read()
                l = boundary.call(lib, C.load_metadata_from_file, fn)
                if not l.accepted:
                    rec.violation("roundtrip/sign_root_metadata_via_gpg/file-not-loadable", l.brief(), case)
                    return
                rec.count("file_byte_checks")
                if fb != canonjson.canon(l.value):
                    rec.violation("file-bytes/sign_root_metadata_via_gpg/not-canonical", "file after GPG-path signing is not canonical", case)
                    return
                if vfp(l.value["signed"]) != vfp(mem["signed"]):
                    rec.violation("sign/sign_root_metadata_via_gpg/payload-changed", "payload changed by file signing", case)
                    return
                mem = l.value
                reloaded = True
                signed_after_reload = True
            # ---- invariants after the step -------------------------------------------
            if external:
                added = True  # verdicts may grow, earlier entries must still be there
            if added:
                for kk, f0 in before_entries.items():
                    if (op == "sign_mem" or external) and kk == k.hex:
                        continue
                    if op == "gpg_file" and kk == gq:
                        continue
                    if kk not in mem["signatures"] or boundary.fingerprint(mem["signatures"][kk]) != f0:
                        rec.violation("add-signature/%s/earlier-entry-altered-or-dropped" % op,
                                      "an entry present before the add-signature step changed or disappeared", case)
                        return
            pv = panel(lib, mem, allkeys, rec)
            mv = model_panel(mem, allkeys)
            for a, b in zip(pv, mv):
                if (a == "A") != (b == models.ACCEPT) and b != models.GREY:
                    rec.violation("panel/verdict-differs-from-model-after-" + op, "panel verdict %s, model %s" % (a, b), case)
                    return
            if prev_panel is not None:
                if not added and pv != prev_panel:
                    rec.violation("panel/verdicts-changed-by-" + op, "verification verdicts changed across a %s step: %r -> %r" % (op, prev_panel, pv), case)
                    return
                if added and any(p == "A" and q != "A" for p, q in zip(prev_panel, pv)):
                    rec.violation("panel/adding-a-signature-invalidated-an-acceptance/" + op, "an acceptance was lost after adding a signature", case)
                    return
            prev_panel = pv
    finally:
        if saved[0] is not None:
            R.gpg_funcs = saved[0]
        R.SSLIB_AVAILABLE = saved[1]
    rec.case("%s|%s" % (",".join(ops_done), type(payload).__name__), nontrivial=signed_after_reload)
    rec.hist("history_len", len(ops_done))


def gen_history(rng, steps):
    while True:
        payload = jsonvals.rand_payload(rng, rng.choice(["small", "large"]))
        if rng.random() < 0.2:
            payload = gmd.root_md(rng.randint(1, 9), [gkeys.key(0), gkeys.key(4)], 1, [gkeys.key(1)], 1)
        if rng.random() < 0.1:
            payload = {"n": 10 ** rng.choice([30, 400, 3999]), "f": [1e22, 5e-324, float("nan"), float("inf")], "s": "\ud800\U0001f600é\x00",
                       "deep": jsonvals.deep(rng.randint(5, 60), rng.choice(["list", "dict"]))}
        if not c07.has_pair(payload):
            break
    seeds = [gkeys.key(i).seed.hex() for i in rng.sample(range(4), rng.randint(1, 3))]
    ops = ["sign_mem"] + [rng.choice(OPS) for _ in range(steps - 1)]
    junk = []
    if rng.random() < 0.3:
        # stale / foreign / junk entries, more of them than any small constant: file order (sorted) != insertion order
        for _ in range(rng.choice([15, 16, 17, 31, 40, 100])):
            junk.append(["%064x" % rng.getrandbits(256), {"signature": "%0128x" % rng.getrandbits(512)}])
    return {"kind": "hist", "payload": payload, "seeds": seeds, "ops": ops, "rseed": rng.getrandbits(32), "junk": junk}


def run_hist(spec, rec, lib):
    rng = random.Random(spec["seed"])
    for i in range(spec["count"]):
        case = gen_history(rng, spec["steps"])
        run_history(case, rec, lib, spec["scratch"])
        if i < 1:
            rec.sample({"ops": case["ops"], "payload": case["payload"], "signers": [s[:8] for s in case["seeds"]]})


def run_gnupg_hist(spec, rec, lib):
    if not gnupg.gpg_available():
        rec.count("gnupg_skipped_no_binary")
        rec.case("gnupg-skipped", nontrivial=False)
        return
    if not getattr(lib.root_signing, "SSLIB_AVAILABLE", False):
        rec.inconclusive_because("GnuPG stand-in not picked up")
        return
    rng = random.Random(spec["seed"])
    try:
        home_cm = gnupg.GpgHome()
        home_cm.__enter__()
    except Exception as e:  # noqa: BLE001 - environmental: skip the sub-workload
        rec.count("gnupg_unavailable")
        rec.case("gnupg-unavailable", nontrivial=False)
        return
    try:
        fprs = list(gnupg.SHIPPED)
        for i in range(spec["count"]):
            case = gen_history(rng, 8)
            if "gpg_file" not in case["ops"]:
                case["ops"][3] = "gpg_file"
            run_history(case, rec, lib, spec["scratch"], real_gpg_fpr=fprs[i % 2])
            rec.count("gnupg_histories")
    finally:
        home_cm.__exit__(None, None, None)
    rec.sample({"gnupg_history": "sign_root_metadata_via_gpg through real GnuPG inside write/load/sign cycles"})


def run_repodata(spec, rec, lib):
    rng = random.Random(spec["seed"])
    C, S, A = lib.common, lib.signing, lib.authentication
    fn = os.path.join(spec["scratch"], "repodata.json")
    for i in range(spec["count"]):
        gen = c11.gen_doc(rng)
        doc, key = gen["doc"], gkeys.from_seed_hex(gen["seed"])
        with open(fn, "wb") as f:
            f.write(json.dumps(doc).encode())
        ops = []
        verdicts0 = None
        for step in range(rng.randint(2, 5)):
            op = rng.choice(["sign", "reload_write", "sign"])
            ops.append(op)
            if op == "sign":
                o = boundary.call(lib, S.sign_all_in_repodata, fn, key.seed.hex())
                if not o.accepted:
                    rec.violation(boundary.mechanism("sign", "sign_all_in_repodata", "return", o), "signing failed", gen)
                    break
            else:
                l = boundary.call(lib, C.load_metadata_from_file, fn)
                b0 = open(fn, "rb").read()
                if l.accepted:
                    C.write_metadata_to_file(l.value, fn)
                    if "sign" in ops[:-1] and open(fn, "rb").read() != b0:
                        rec.violation("fixpoint/write-load-write/repodata-bytes-change", "rewriting a signed repodata file changes its bytes", gen)
                        break
            cur = C.load_metadata_from_file(fn)
            fb = open(fn, "rb").read()
            if "sign" in ops:
                rec.count("file_byte_checks")
                if fb != canonjson.canon(cur):
                    rec.violation("file-bytes/repodata/not-canonical", "repodata file is not in canonical form after %s" % op, gen)
                    break
                vs = []
                for sec in ("packages", "packages.conda"):
                    for name, md in list(cur.get(sec, {}).items())[:6]:
                        env = S.wrap_as_signable(md)
                        env["signatures"] = copy.deepcopy(cur["signatures"].get(name, {}))
                        vs.append(boundary.call(lib, A.verify_signable, env, [key.hex], 1).accepted)
                rec.count("panel_verifications", len(vs))
                if not all(vs):
                    rec.violation("panel/repodata/artifact-signature-stops-verifying-after-" + op, "an artifact signature no longer verifies", gen)
                    break
        rec.case("repodata|%s|%d" % (",".join(ops), len(doc["packages"])), nontrivial="sign" in ops)


def flavour_variants(v, rng):
    """values that compare == in Python but are different JSON values (1 / 1.0 / True, 0 / 0.0 / -0.0 / False)"""
    paths = [p for p in jsonvals.walk_paths(v) if type(jsonvals.get_path(v, p)) in (int, float, bool)]
    out = []
    for p in paths[:6]:
        x = jsonvals.get_path(v, p)
        if x != x or x in (float("inf"), float("-inf")):
            continue
        for alt in (int(x) if x == int(x) and abs(x) < 2**53 else x, float(x) if abs(x) < 2**53 else x, bool(x) if x in (0, 1) else x, -0.0 if x == 0 else x):
            if type(alt) is not type(x) or (alt == 0 and str(alt) != str(x)):
                try:
                    out.append(jsonvals.set_path(v, p, alt))
                except Exception:
                    pass
    return out


def run_same_file(spec, rec, lib):
    """successive writes to ONE path of values that are ==-equal but different JSON values, and writes over a
    pre-existing non-canonical file holding the same value: the file must always end up as the canonical bytes"""
    rng = random.Random(spec["seed"])
    C = lib.common
    fn = os.path.join(spec["scratch"], "same.json")
    n = 0
    seqs = [fam for fam in jsonvals.NEAR_COLLISION_FAMILIES]
    for i in range(spec["count"]):
        base = {"version": rng.choice([1, 0, 2]), "flag": rng.choice([True, False, 1, 0.0]), "xs": [1, 1.0, True, 0, -0.0],
                "nested": {"n": rng.choice([1, 1.0])}, "s": jsonvals.rand_string(rng, 5)}
        seqs.append([base] + flavour_variants(base, rng))
    for seq in seqs:
        for v in list(seq) + list(reversed(seq)):
            if c07.has_pair(v):
                continue
            for wrapped in (v, {"signatures": {"ab" * 32: {"signature": "cd" * 64}}, "signed": v}):
                if rng.random() < 0.25:
                    with open(fn, "wb") as f:  # pre-existing, equal value, other layout
                        f.write(json.dumps(wrapped, separators=(",", ":")).encode())
                o = boundary.call(lib, C.write_metadata_to_file, wrapped, fn)
                n += 1
                rec.case("samefile|" + boundary.value_fingerprint(wrapped))
                fb = open(fn, "rb").read() if os.path.exists(fn) else None
                if not o.accepted or fb != canonjson.canon(wrapped):
                    rec.violation("file-bytes/write_metadata_to_file/stale-or-noncanonical-after-overwrite",
                                  "after writing a value over a file that held an ==-equal (but different) value or another layout, "
                                  "the file is not the canonical form of the value just written (%s)" % o.brief(),
                                  {"kind": "samefile", "value": wrapped})
                    break
    rec.count("same_file_overwrites", n)
    rec.sample({"same_file": "1 / 1.0 / true and layout variants written successively to one path"})


def run_values(spec, rec, lib):
    """write -> load -> write fix-point on bare hostile values (no envelope)"""
    rng = random.Random(spec["seed"])
    C = lib.common
    vdir = os.path.join(spec["scratch"], "values")
    os.makedirs(vdir, exist_ok=True)
    names = vlib.fs_names(["v.json", "v.json", "re\u0301podata.json", "\u212bngstrom.json", "caf\u00e9.json", "na\u0308me with space.json",
                           "\uff21\uff22.json", ".hidden.json", "\u2126.json", "x\u0327\u0301.json"])
    vfp = boundary.value_fingerprint
    for i in range(spec["count"]):
        # the file is the one the caller NAMED: names that a normalising layer would respell (decomposed accents, compatibility
        # characters) stay as given on a file system that does not normalise
        name = names[i % len(names)]
        fn = os.path.join(vdir, name)
        listing_before = set(os.listdir(vdir))
        v = jsonvals.rand_value(rng, 0, 5, 4) if rng.random() < 0.8 else jsonvals.rand_scalar(rng)
        if c07.has_pair(v):
            continue
        if i % 4 == 1:
            # envelope-SHAPED values whose signature map is indexed by hostile names: other spellings of a key (upper / mixed case,
            # padded, prefixed), sometimes next to the key itself, plus junk - a file stores what was written, index names included
            k = gkeys.key(rng.randrange(8))
            e = {"signature": "%0128x" % rng.getrandbits(512)}
            sps = gkeys.respellings(k.hex)
            sigs = {}
            for sp in rng.sample(sps, rng.randint(1, 3)):
                sigs[sp] = dict(e)
            if rng.random() < 0.5:
                sigs[k.hex] = {"signature": "%0128x" % rng.getrandbits(512)}
            if rng.random() < 0.5:
                sigs[k.hex.upper()] = {"signature": "%0128x" % rng.getrandbits(512), "other_headers": "04ff"}
            items = list(sigs.items())
            rng.shuffle(items)
            v = {"signatures": dict(items), "signed": v}
            rec.count("envelope_shaped_values_with_hostile_index_names")
        case = {"kind": "value", "value": v}
        w = boundary.call(lib, C.write_metadata_to_file, v, fn)
        l = boundary.call(lib, C.load_metadata_from_file, fn) if w.accepted else w
        rec.case("value|" + vfp(v), nontrivial=c07.nontrivial(v))
        if not l.accepted:
            rec.violation(boundary.mechanism("roundtrip", "write+load", "value", l), "write/load of a JSON value failed", case)
            continue
        listing_after = set(os.listdir(vdir))
        if name not in listing_after or (listing_after - listing_before) - {name}:
            rec.violation("file-name/write_metadata_to_file/written-under-another-name",
                          "after writing to %r the directory gained %r (the named file %s)" % (name, sorted((listing_after - listing_before) - {name}),
                                                                                          "exists" if name in listing_after else "does not exist"), case)
            continue
        fb = open(fn, "rb").read()
        if fb != canonjson.canon(v):
            rec.violation("file-bytes/write_metadata_to_file/not-canonical-bytes-of-value", "file bytes differ from canonical bytes", case)
        elif vfp(l.value) != vfp(v):
            rec.violation("roundtrip/load_metadata_from_file/loaded-value-differs", "loaded value differs", case)
        else:
            rec.count("value_roundtrips")


def run_neighbours(spec, rec, lib):
    """the file a caller names is the whole story: a directory full of NEIGHBOURS of that name (name + every suffix the library's
    code mentions and the usual editor / tool leftovers; hidden and prefixed variants), holding stale material from an earlier
    version of the same document (its signature map, the whole earlier envelope, junk), changes nothing about what an ordinary
    write stores and what a load returns - and the neighbours themselves are left alone"""
    from ..gen import vocab

    rng = random.Random(spec["seed"])
    C, A = lib.common, lib.authentication
    suffixes = vocab.learn(lib.pkg_dir)["suffixes"]
    rec.count("file_suffixes_learned_from_library_code", len(suffixes))
    vfp = boundary.value_fingerprint
    for i in range(spec["count"]):
        d = os.path.join(spec["scratch"], "nb%d" % i)
        os.makedirs(d, exist_ok=True)
        name = rng.choice(vlib.fs_names(["4.root.json", "key_mgr.json", "doc.json", "doc", "re\u0301po.json"]))
        ks = [gkeys.key(j) for j in rng.sample(range(8), rng.randint(1, 3))]
        gpg = rng.random() < 0.5
        v = rng.randint(1, 9)
        old = gmd.sign_env(gmd.envelope(gmd.root_md(v, ks, 1, [gkeys.key(9)], 1)), ks, gpg, rng)
        new = gmd.sign_env(gmd.envelope(gmd.root_md(v + 1, ks, len(ks), [gkeys.key(10)], 1)), ks, gpg, rng)
        stale = [canonjson.canon(old["signatures"]), canonjson.canon(old), canonjson.canon({"signatures": old["signatures"]}),
                 json.dumps(old["signatures"]).encode(), canonjson.canon({"signed": old["signed"]}), b"", b"\x00\xff junk", b"{}", b"[]",
                 canonjson.canon({k: {"signature": "00" * 64} for k in old["signatures"]})]
        fn = os.path.join(d, name)
        nbs = {}
        for sfx in suffixes:
            for nb in (name + sfx, "." + name + sfx, name.rsplit(".", 1)[0] + sfx, sfx.lstrip(".") + "." + name):
                if nb != name and nb not in nbs:
                    nbs[nb] = stale[(len(nbs) + i) % len(stale)]
        for nb, content in nbs.items():
            with open(os.path.join(d, nb), "wb") as f:
                f.write(content)
        if rng.random() < 0.5:
            with open(fn, "wb") as f:
                f.write(canonjson.canon(old))  # the earlier version sits under the name itself
        listing_before = set(os.listdir(d)) | {name}
        case = {"kind": "neighbours", "name": name, "n_neighbours": len(nbs), "value": new}
        w = boundary.call(lib, C.write_metadata_to_file, copy.deepcopy(new), fn)
        l = boundary.call(lib, C.load_metadata_from_file, fn) if w.accepted else w
        rec.case("neighbours|%s|%d|%s" % (name, len(ks), gpg))
        rec.count("writes_among_neighbours")
        if not l.accepted:
            rec.violation(boundary.mechanism("roundtrip", "write+load[among-neighbours]", "value", l), "write/load failed in a directory holding neighbours of the name", case)
            continue
        fb = open(fn, "rb").read()
        if fb != canonjson.canon(new):
            rec.violation("file-bytes/write_metadata_to_file/not-canonical-bytes-of-value/among-neighbours", "file bytes differ from the canonical bytes of the value written", case)
        if vfp(l.value) != vfp(new):
            diff = [k for k in new["signatures"] if l.value.get("signatures", {}).get(k) != new["signatures"][k]] if isinstance(l.value, dict) else "?"
            rec.violation("roundtrip/load_metadata_from_file/loaded-value-differs/among-neighbours",
                          "the value loaded from %r differs from the value just written to it (entries differing: %s); neighbours present: %s"
                          % (name, diff, sorted(nbs)[:6]), case)
        else:
            o = boundary.call(lib, A.verify_signable, l.value, [k.hex for k in ks], len(ks), gpg=gpg)
            if not o.accepted:
                rec.violation(boundary.mechanism("roundtrip", "verify_signable[loaded-among-neighbours]", "accept", o), "loaded document no longer verifies", case)
        listing_after = set(os.listdir(d))
        # what happens to the neighbours is not part of the statement (a version that keeps companion files may tidy them up):
        # observed and tallied, never judged
        if listing_after != listing_before:
            rec.count("hint_directory_listing_changed_among_neighbours")
        touched = [nb for nb, content in nbs.items() if nb in listing_after and open(os.path.join(d, nb), "rb").read() != content]
        if touched:
            rec.count("hint_neighbour_files_rewritten")
        if i < 1:
            rec.sample({"neighbours": sorted(nbs)[:12], "named": name})


def _discover_menu(lib, src):
    """read the interactive tool's own menu (numbers by label) from what it prints before its first prompt"""
    import builtins
    import contextlib
    import io
    import re

    def eof(prompt=""):
        raise EOFError("discovery")

    real_input = builtins.input
    builtins.input = eof
    buf = io.StringIO()
    try:
        with contextlib.redirect_stdout(buf):
            try:
                lib.cli.cli(["modify-metadata", src])
            except BaseException as e:  # noqa: BLE001 - EOFError from our own input()
                if isinstance(e, (KeyboardInterrupt, MemoryError)):
                    raise
    finally:
        builtins.input = real_input
    text = re.sub(r"\x1b\[[0-9;]*m", "", buf.getvalue())
    menu = {}
    for num, label in re.findall(r"^\s*(\d+)\s*:\s*(.+?)\s*$", text, flags=re.M):
        low = label.lower()
        if low.startswith("done") or "write and save" in low:
            menu.setdefault("write", num)
        elif low.startswith("add a signature"):
            menu.setdefault("add", num)
        elif low.startswith("update any top-level"):
            menu.setdefault("noop", num)
    return menu or None


def run_cli_session(spec, rec, lib):
    """the interactive modify-metadata subcommand driven by a scripted stdin: load a stored signed file, add one or more
    signatures in ONE session (raw keys), threshold edits, write to a new file.  Earlier entries must survive, the written
    file is canonical and the verdict panel only grows."""
    import builtins

    rng = random.Random(spec["seed"])
    C = lib.common
    d = spec["scratch"]
    for n in range(spec["count"]):
        keys = [gkeys.key(i) for i in rng.sample(range(6), 4)]
        first, adders = keys[0], keys[1:1 + rng.randint(1, 3)]
        md = gmd.root_md(rng.randint(1, 9), keys, rng.randint(1, 3), [gkeys.key(7)], 1) if rng.random() < 0.7 else \
            gmd.delegating("key_mgr", {"pkg_mgr": gmd.delegation(keys[:2], 1)})
        env = gmd.sign_env(gmd.envelope(md), [first], False, rng)
        if rng.random() < 0.4:
            jk, jv = "%064x" % rng.getrandbits(256), {"signature": "%0128x" % rng.getrandbits(512)}
            env["signatures"][jk] = jv
        src, dst = os.path.join(d, "in%d.json" % n), os.path.join(d, "out%d.json" % n)
        with open(src, "wb") as f:
            f.write(canonjson.canon(env))
        menu = _discover_menu(lib, src)
        if menu is None or "add" not in menu or "write" not in menu:
            # the session's menu could not be read (another layout / numbering): nothing to drive, nothing to judge
            rec.count("cli_session_menu_not_recognised")
            rec.case("cli_session|menu-not-recognised", nontrivial=False)
            continue
        script = []
        for k in adders:
            if rng.random() < 0.3 and "noop" in menu:
                script += [menu["noop"]]  # a no-op menu entry between the operations
            script += [menu["add"], rng.choice([k.seed.hex(), k.seed.hex().upper(), " ".join(k.seed.hex()[i:i + 8] for i in range(0, 64, 8))])]
        script += [menu["write"], dst]
        feed = list(script)

        def fake_input(prompt=""):
            if not feed:
                raise EOFError("script exhausted")
            return feed.pop(0)

        real_input = builtins.input
        builtins.input = fake_input
        try:
            o = boundary.call(lib, lib.cli.cli, ["modify-metadata", src])
        finally:
            builtins.input = real_input
        rec.case("cli_session|%d|%s" % (len(adders), md["type"]))
        rec.count("cli_sessions")
        case = {"kind": "cli_session", "script": script, "stored": env}
        if not o.accepted or not os.path.exists(dst):
            # the scripted dialogue did not run to the end (prompts in another order, other wording ...): that is about the
            # dialogue, not about what a written file must look like - tallied, not judged
            rec.count("cli_session_not_completed")
            rec.hist("cli_session_incomplete", "raised:%s" % o.cls if not o.accepted else "nothing-written")
            continue
        fb = open(dst, "rb").read()
        got = json.loads(fb)
        data = canonjson.canon(md)
        want = copy.deepcopy(env["signatures"])
        for k in adders:
            want[k.hex] = {"signature": ed25519.sign(k.seed, data).hex()}
        if fb != canonjson.canon(got):
            rec.violation("file-bytes/modify-metadata/not-canonical", "file written by the session is not canonical", case)
        elif boundary.value_fingerprint(got.get("signed")) != boundary.value_fingerprint(md):
            rec.violation("cli-session/modify-metadata/payload-changed", "signed part changed although nothing was edited", case)
        elif boundary.value_fingerprint(got.get("signatures")) != boundary.value_fingerprint(want):
            missing = sorted(set(want) - set(got.get("signatures", {})))
            rec.violation("add-signature/modify-metadata/earlier-entry-altered-or-dropped" if missing else "add-signature/modify-metadata/entries-differ",
                          "after adding %d signature(s) in one session the stored file's signature map is not {earlier entries + the new ones} "
                          "(%d expected entries missing)" % (len(adders), len(missing)), case)
        else:
            rec.count("cli_session_signature_maps_ok")
    rec.sample({"cli_session": "modify-metadata with scripted stdin: add 1-3 signatures in one session, write"})


def run_shard(spec, rec, lib):
    if spec.get("kind") == "neighbours":
        return run_neighbours(spec, rec, lib)
    if spec["kind"] == "cli_session":
        return run_cli_session(spec, rec, lib)
    {"hist": run_hist, "repodata": run_repodata, "gnupg_hist": run_gnupg_hist, "values": run_values,
     "same_file": run_same_file}[spec["kind"]](spec, rec, lib)


def finish(merged, tier, seed):
    for need in ("file_byte_checks", "loads", "panel_verifications"):
        if merged.counters.get(need, 0) == 0:
            merged.inconclusive_because("monitor %s observed nothing" % need)


def replay(case, rec, lib):
    import shutil
    import tempfile

    d = tempfile.mkdtemp(prefix="vf_c08_")
    try:
        if case.get("kind") == "hist":
            run_history(case, rec, lib, d)
        elif case.get("kind") == "neighbours":
            run_neighbours({"seed": 1, "count": 12, "scratch": d}, rec, lib)
        elif case.get("kind") == "value":
            C = lib.common
            fn = os.path.join(d, "v.json")
            C.write_metadata_to_file(case["value"], fn)
            rec.case("value")
            if open(fn, "rb").read() != canonjson.canon(case["value"]):
                rec.violation("file-bytes/write_metadata_to_file/not-canonical-bytes-of-value", "replay", case)
        else:
            run_repodata({"seed": 1, "count": 5, "scratch": d}, rec, lib)
    finally:
        shutil.rmtree(d, ignore_errors=True)
