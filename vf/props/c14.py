"""C14 - delegating-metadata checker enforces exactly the documented schema."""
import copy
import json
import os
import random

from ..engines import noise, rootchain
from ..gen import caselang, keys as gkeys, metadata as gmd, mutate, palette
from ..monitors import boundary
from ..refs import canonjson, schema

RULE = (
    "base documents (shipped fixtures, library-builder output, generated metadata with 0-4 roles, 0-5 keys, with/without "
    "version/timestamp, raw and OpenPGP signature shapes) x mutations at every JSON path: deletion, every palette value (JSON and "
    "Python-only values, boundary numbers, date spellings, key spellings), extra fields at every level, duplicated items, renamed "
    "keys; double mutations in the thorough tier. Oracle = reference schema (ACCEPT / REJECT / GREY). Every document the checker "
    "accepts is pushed through verify_root and verify_delegation (both sides, both modes): only documented error families may come "
    "out. distinct = distinct mutated documents (structural fingerprint); non-trivial = mutated (not the base itself)."
)
RULE_ADDENDUM = (
    'Additional: Python-level documents with non-string mapping keys, crowded signature maps (65..130 entries), repeat-after-reject, validators under threads.'
)
RULE = RULE + " " + RULE_ADDENDUM
LIMITS = ["grey zones (integral non-int numerics, strptime-lenient dates, str/dict subclasses) are tallied, not judged",
          "objects with hostile dunder methods out of scope"]
ASSUMPTIONS = ["reference schema vf/refs/schema.py states the documented grammar"]

HERE = os.path.dirname(os.path.dirname(os.path.dirname(os.path.abspath(__file__))))


def bases(rng, lib, n_generated=3):
    out = []
    for d, f in (("testdata", "1.root.json"), ("testdata", "2.root.json"), ("testdata", "key_mgr.json")):
        with open(os.path.join(HERE, "fixtures", d, f)) as fh:
            out.append(("fixture:" + f, json.load(fh)))
    # library builder output, signed by the reference
    try:
        M = lib.metadata_construction
        ks = [gkeys.key(i) for i in range(3)]
        md = M.build_root_metadata(2, [k.hex for k in ks[:2]], 2, [ks[2].hex], 1,
                                   root_timestamp="2021-01-01T00:00:00Z", root_expiration="2031-01-01T00:00:00Z")
        env = gmd.envelope(copy.deepcopy(md))
        gmd.sign_env(env, ks[:2], True, rng)
        out.append(("builder", env))
    except Exception:
        pass
    U = [gkeys.key(i) for i in range(8)]
    for i in range(n_generated):
        nroles = rng.randint(0, 4)
        dels = {}
        for j in range(nroles):
            nk = rng.randint(0, 5)
            ks = rng.sample(U, nk)
            dels[rng.choice(["root", "key_mgr", "pkg_mgr", "", "x%d" % j])] = gmd.delegation(ks, rng.randint(1, max(1, nk)))
        t = rng.choice(["root", "key_mgr"])
        md = gmd.delegating(t, dels, version=rng.choice([1, 7, None]) if t != "root" else rng.choice([1, 9]),
                            timestamp=rng.choice(["2021-06-01T12:30:59Z", None]))
        if "version" not in md and "timestamp" not in md:
            md["timestamp"] = "2021-06-01T12:30:59Z"
        env = gmd.envelope(md)
        signers = rng.sample(U, rng.randint(0, 3))
        gmd.sign_env(env, signers, rng.random() < 0.5, rng)
        if rng.random() < 0.5:
            env["signatures"]["not-a-key"] = {"signature": "ab" * 64}  # keys of the map are not part of the schema
        out.append(("generated%d" % i, env))
    if n_generated >= 2:
        # far more signature entries than any real document (well-formed shapes, raw and OpenPGP): every one of them is format-checked
        n = rng.choice([65, 66, 80, 130])
        md = gmd.delegating("key_mgr", {"pkg_mgr": gmd.delegation(U[:2], 1)}, version=3)
        env = gmd.envelope(md)
        for j in range(n):
            e = {"signature": "%0128x" % rng.getrandbits(512)}
            if j % 3 == 0:
                e["other_headers"] = "04001608001d1621" + "%040x" % rng.getrandbits(160)
            env["signatures"]["%064x" % rng.getrandbits(256)] = e
        out.append(("crowded%d" % n, env))
    return out


def plan(tier, seed):
    q = tier == "quick"
    specs = [{"kind": "systematic", "base": b} for b in range(4)]
    for _ in range(8 if q else 24):
        specs.append({"kind": "random", "count": 5000 if q else 60000, "double": not q})
    for T in ([4] if q else [2, 4, 8, 16]):
        specs.append({"kind": "threads", "threads": T, "count": 600 if q else 6000})
    return specs


def judge(doc_case, rec, lib, label, push=True):
    doc = caselang.dec(doc_case, lib)
    exp = schema.delegating_metadata(doc)
    fp = boundary.fingerprint(doc)
    C, A = lib.common, lib.authentication
    out = boundary.call(lib, C.checkformat_delegating_metadata, doc)
    rec.case(fp, nontrivial=label != "base")
    rec.hist("oracle", exp)
    rec.hist("outcome", "accept" if out.accepted else out.cls)
    case = {"kind": "doc", "doc": doc_case, "label": label}
    if boundary.fingerprint(doc) != fp:
        rec.violation("purity/checkformat_delegating_metadata/argument-mutated", "checker modified its argument", case)
    if not out.accepted and out.family not in ("TypeError", "ValueError"):
        rec.violation(boundary.mechanism("undocumented-error", "checkformat_delegating_metadata", "TypeError|ValueError", out),
                      "checker raised %s: %s" % (out.cls, (out.msg or "")[:140]), case)
    if exp == schema.G:
        rec.count("grey")
        rec.hist("grey_outcome", "accept" if out.accepted else "reject")
    elif exp == schema.A and not out.accepted:
        rec.violation(boundary.mechanism("schema", "checkformat_delegating_metadata", "accept", out),
                      "schema-valid document rejected (%s)" % label, case)
    elif exp == schema.R and out.accepted:
        rec.violation("schema/checkformat_delegating_metadata/accepts-invalid/" + label.split(":")[0],
                      "document outside the documented schema accepted (%s)" % label, case)
    if exp == schema.R and not out.accepted and rec.evaluations % 5 == 0:
        # the same document offered again right after its rejection
        o2 = boundary.call(lib, C.checkformat_delegating_metadata, caselang.dec(doc_case, lib))
        rec.count("repeats_after_reject")
        if o2.accepted:
            rec.violation("schema/checkformat_delegating_metadata/accepts-invalid/on-repeat",
                          "document outside the documented schema rejected the first time, accepted when offered again (%s)" % label, case)
    if out.accepted and push:
        push_through(doc_case, doc, rec, lib, case)
    return exp, out


_PARTNER = {}


def partner(lib):
    """a fixed valid root / key_mgr pair to put on the other side"""
    if "p" not in _PARTNER:
        rng = random.Random(7)
        ks = [gkeys.key(0), gkeys.key(1)]
        root = rootchain.signed_root(1, ks, 1, ks, rng)
        _PARTNER["p"] = root
    return _PARTNER["p"]


def push_through(doc_case, doc, rec, lib, case):
    """the verifiers never run into an internal error on anything the checker accepts"""
    A = lib.authentication
    other = partner(lib)
    t = doc["signed"]["type"] if isinstance(doc, dict) and isinstance(doc.get("signed"), dict) else "root"
    def fresh():
        return caselang.dec(doc_case, lib)

    calls = [
        ("verify_root[trusted=doc]", A.verify_root, (fresh(), copy.deepcopy(other)), {}),
        ("verify_root[new=doc]", A.verify_root, (copy.deepcopy(other), fresh()), {}),
        ("verify_root[both=doc]", A.verify_root, (fresh(), fresh()), {}),
    ]
    roles = ["root", "key_mgr"]
    try:
        roles += [r for r in doc["signed"]["delegations"] if isinstance(r, str)][:3]
    except Exception:
        pass
    for role in roles:
        for gpg in (False, True):
            calls.append(("verify_delegation[trusted=doc]", A.verify_delegation, (role, copy.deepcopy(other), fresh()), {"gpg": gpg}))
            calls.append(("verify_delegation[untrusted=doc]", A.verify_delegation, (role, fresh(), copy.deepcopy(other)), {"gpg": gpg}))
    for name, fn, args, kw in calls:
        o = boundary.call(lib, fn, *args, **kw)
        rec.count("push_through_calls")
        if not o.accepted and o.family not in boundary.DOCUMENTED:
            rec.violation(boundary.mechanism("internal-error-on-accepted-metadata", name, "documented-family", o),
                          "checker accepts the document but %s raised %s: %s" % (name, o.cls, (o.msg or "")[:120]), case)
            break


def run_systematic(spec, rec, lib):
    rng = random.Random(1234)
    bs = bases(rng, lib, 1)
    if spec["base"] >= len(bs):
        return
    name, base = bs[spec["base"]]
    judge(base, rec, lib, "base")
    n = 0
    for mut in mutate.systematic(base, palette.ALL):
        doc = mutate.apply(base, mut)
        judge(doc, rec, lib, "%s:%s" % (name, mut[0]), push=(n % 7 == 0))
        n += 1
    rec.count("systematic_mutations", n)
    rec.sample({"base": name, "systematic_mutations": n, "example_mutation": ["replace", ["signed", "version"], 0]})


def run_random(spec, rec, lib):
    rng = random.Random(spec["seed"])
    bs = bases(rng, lib, 4)
    pss = [mutate.paths(b) for _n, b in bs]
    for i in range(spec["count"]):
        j = rng.randrange(len(bs))
        name, base = bs[j]
        mut = mutate.random_mutation(base, rng, palette.ALL, pss[j])
        try:
            doc = mutate.apply(base, mut)
            label = "%s:%s" % (name, mut[0])
            if spec.get("double") and rng.random() < 0.5:
                mut2 = mutate.random_mutation(doc, rng, palette.ALL)
                doc = mutate.apply(doc, mut2)
                label += "+" + mut2[0]
        except (KeyError, IndexError, TypeError):
            continue
        judge(doc, rec, lib, label, push=(i % 3 == 0))
        if i % 60 == 13:
            noise.tick(lib, rng, spec.get("scratch"))
        if i < 2:
            rec.sample({"base": name, "mutation": mut})


def run_threads(spec, rec, lib):
    """the checker's verdict on a document does not depend on what other threads are checking or verifying at the same time
    (valid and invalid documents, and verify_delegation calls on non-delegating payloads, interleaved)"""
    from ..engines import threads
    from ..gen import metadata as gmd

    rng = random.Random(spec["seed"])
    bs = bases(rng, lib, 4)
    pss = [mutate.paths(b) for _n, b in bs]
    C, A, S = lib.common, lib.authentication, lib.signing
    jobs, meta = [], []
    km = gmd.envelope(gmd.delegating("key_mgr", {"pkg_mgr": gmd.delegation([gkeys.key(0)], 1)}))
    while len(jobs) < spec["count"]:
        j = rng.randrange(len(bs))
        name, base = bs[j]
        r = rng.random()
        try:
            if r < 0.25:
                doc_case, label = base, name + ":valid"
            else:
                mut = mutate.random_mutation(base, rng, palette.ALL, pss[j])
                doc_case, label = mutate.apply(base, mut), "%s:%s" % (name, mut[0])
        except (KeyError, IndexError, TypeError):
            continue
        doc = caselang.dec(doc_case, lib)
        jobs.append((C.checkformat_delegating_metadata, (doc,), {}))
        meta.append((doc_case, label, schema.delegating_metadata(doc)))
        if rng.random() < 0.3:
            env = {"signatures": {}, "signed": rng.choice([{"name": "pkg"}, 5, None, ["x"], {"type": "root"}])}
            jobs.append((A.verify_delegation, ("pkg_mgr", env, copy.deepcopy(km)), {}))
            meta.append(None)
    res = threads.run_calls(lib, jobs, spec["threads"], rec, spec["seed"], prob=0.1, label="checkformat_delegating_metadata")
    if res is None:
        return
    for m, out in zip(meta, res):
        if m is None or out is None:
            continue
        doc_case, label, exp = m
        rec.case("thr|%s|%s" % (label, exp))
        rec.hist("oracle", exp)
        case = {"kind": "doc", "doc": doc_case, "label": label + "[threads]"}
        if exp == schema.A and not out.accepted:
            rec.violation(boundary.mechanism("schema", "checkformat_delegating_metadata[threads]", "accept", out),
                          "schema-valid document rejected while other threads were checking other documents", case)
        elif exp == schema.R and out.accepted:
            rec.violation("schema/checkformat_delegating_metadata/accepts-invalid/under-threads",
                          "document outside the documented schema accepted while other threads were checking other documents (%s)" % label, case)


def run_shard(spec, rec, lib):
    {"systematic": run_systematic, "random": run_random, "threads": run_threads}[spec["kind"]](spec, rec, lib)


def finish(merged, tier, seed):
    h = merged.hists.get("oracle", {})
    if h.get("A", 0) == 0 or h.get("R", 0) == 0:
        merged.inconclusive_because("oracle classes not all observed: %r" % h)
    if merged.counters.get("push_through_calls", 0) == 0:
        merged.inconclusive_because("no accepted document was pushed through the verifiers")


def replay(case, rec, lib):
    judge(case["doc"], rec, lib, case.get("label", "replay"))
