"""C11 - repodata artifact signing is complete, faithful and client-verifiable."""
import copy
import json
import os
import random

from ..gen import jsonvals, keys as gkeys, metadata as gmd
from ..monitors import boundary, probes
from ..refs import canonjson, ed25519

RULE = (
    "repodata documents with 0-40 artifacts per section (names: empty, Unicode, lone surrogates, near-duplicates), any JSON value as "
    "artifact metadata, pre-existing signatures sections (stale, by other keys, non-dict), extra top-level fields, with/without "
    "packages.conda; after sign_all_in_repodata the file bytes must equal the reference-computed expected document (possible "
    "because ed25519 is deterministic); then client side: every artifact verifies through a generated pkg_mgr delegation, the entry "
    "of artifact A on artifact B's different metadata raises SignatureError, a second run leaves the bytes unchanged; probe: "
    "serialize_and_sign calls == artifacts. distinct = (n packages, n conda, pre-existing class, extra fields, key); non-trivial = "
    ">= 1 artifact."
)
RULE_ADDENDUM = (
    'Additional: a third of the cases go through the command-line function; histories with a failed earlier attempt on the same path; different files signed concurrently with different keys.'
)
RULE = RULE + " " + RULE_ADDENDUM
LIMITS = ["artifact names are distinct across both sections (as the property states)", "documents up to ~1000 artifacts per section"]
ASSUMPTIONS = ["reference signer and serializer"]


def plan(tier, seed):
    n = 240 if tier == "quick" else 6400
    shards = 12 if tier == "quick" else 32
    specs = [{"kind": "docs", "count": n // shards} for _ in range(shards)]
    for T in ([4] if tier == "quick" else [2, 4, 8, 16]):
        specs.append({"kind": "threads", "threads": T, "count": 6 if tier == "quick" else 60})
    return specs


def gen_doc(rng, big=False):
    def names(n, suffix):
        out = []
        while len(out) < n:
            r = rng.random()
            if r < 0.6:
                s = "pkg%d-%d.%d-h%x_0%s" % (len(out), rng.randrange(9), rng.randrange(99), rng.getrandbits(24), suffix)
            elif r < 0.8:
                s = jsonvals.rand_string(rng, 10) + suffix
            else:
                s = rng.choice(["", " ", "é", "\ud800", "a", "A", "a ", "signatures", "packages"]) + (suffix if rng.random() < 0.5 else "")
            if s not in out and s not in used:
                out.append(s)
                used.add(s)
        return out

    used = set()
    npk = rng.choice([0, 1, 2, 3, 5, 8, 20, 40]) if rng.random() < 0.8 else rng.randint(0, 40)
    nco = rng.choice([0, 0, 1, 2, 4, 10, 40]) if rng.random() < 0.8 else rng.randint(0, 40)
    if big:
        # larger repositories (sizes around typical chunking boundaries and odd remainders)
        sizes = [63, 64, 65, 67, 96, 97, 101, 127, 128, 129, 130, 203, 255, 257, 500, 1001]
        if rng.random() < 0.5:
            npk = rng.choice(sizes)
        else:
            nco = rng.choice(sizes)
        if rng.random() < 0.3:
            npk, nco = rng.choice(sizes), rng.choice(sizes)

    def md():
        r = rng.random()
        if r < 0.6:
            return {"build": "py_0", "build_number": rng.randrange(5), "depends": [jsonvals.rand_string(rng, 6) for _ in range(rng.randint(0, 3))],
                    "md5": "%032x" % rng.getrandbits(128), "name": jsonvals.rand_string(rng, 8), "size": rng.randrange(10**7),
                    "timestamp": rng.randrange(10**12), "version": "%d.%d" % (rng.randrange(9), rng.randrange(9))}
        if r < 0.7:
            # metadata that uses the library's own vocabulary as data (an artifact record that is itself envelope-shaped, has
            # members called signatures / signed / ...): still opaque metadata, signed as a whole like any other
            return jsonvals.self_similar(rng)
        return jsonvals.rand_value(rng, 0, 3, 3)

    doc = {"info": {"subdir": "linux-64"}, "packages": {n: md() for n in names(npk, ".tar.bz2")}}
    has_conda = rng.random() < 0.75
    if has_conda:
        doc["packages.conda"] = {n: md() for n in names(nco, ".conda")}
    seed_hex = gkeys.key(rng.randrange(8)).seed.hex() if rng.random() < 0.7 else rng.randbytes(32).hex()
    pre = rng.choice(["none", "none", "stale", "otherkey", "nondict", "empty", "partial", "samekey_stale", "samekey_stale", "samekey_fresh"])
    allnames = list(doc["packages"]) + list(doc.get("packages.conda", {}))
    if pre == "stale":
        doc["signatures"] = {"gone-1.0-0.tar.bz2": {"ab" * 32: {"signature": "cd" * 64}}}
        for n in allnames[:2]:
            doc["signatures"][n] = {"ab" * 32: {"signature": "cd" * 64}}
    elif pre == "otherkey":
        ok = gkeys.key(11)
        doc["signatures"] = {n: {ok.hex: {"signature": ed25519.sign(ok.seed, canonjson.canon(
            doc["packages"].get(n, doc.get("packages.conda", {}).get(n)))).hex()}} for n in allnames}
    elif pre == "nondict":
        doc["signatures"] = rng.choice([None, [], "x", 5])
    elif pre == "empty":
        doc["signatures"] = {}
    elif pre == "partial":
        doc["signatures"] = {n: {} for n in allnames[::2]}
    elif pre in ("samekey_stale", "samekey_fresh"):
        # the file was signed earlier with the SAME key ...
        k = gkeys.from_seed_hex(seed_hex)
        doc["signatures"] = expected_doc(doc, k)["signatures"]
        if pre == "samekey_stale":
            # ... and some artifacts' metadata were edited in place afterwards (hotfix), signatures left behind
            for sec in ("packages", "packages.conda"):
                for n in list(doc.get(sec, {}))[::2]:
                    md0 = doc[sec][n]
                    doc[sec][n] = dict(md0, hotfix=rng.randrange(1000)) if isinstance(md0, dict) else [md0, "hotfix"]
    if rng.random() < 0.35:
        # top-level fields whose names resemble the two artifact sections but are NOT sections
        nm = rng.choice(["packages.whl", "packages.removed", "packages2", "packages.", "Packages", "packages.conda ", "packages.conda.old", "packages_conda"])
        val = {"extra-1.0-0.whl": {"name": "extra"}, "x": 1}
        if allnames and rng.random() < 0.5:
            val[allnames[0]] = {"name": "shadow", "n": rng.randrange(100)}  # same name as a real artifact, other metadata
        doc[nm] = rng.choice([val, [1, 2], "str", {}])
    extra = rng.random() < 0.5
    if extra:
        doc["removed"] = [jsonvals.rand_string(rng, 5)]
        doc["repodata_version"] = 1
        if rng.random() < 0.3:
            xk = jsonvals.rand_string(rng, 5) or "x"
            if xk not in ("packages", "packages.conda", "signatures"):
                doc[xk] = jsonvals.rand_value(rng, 0, 2, 3)
    items = list(doc.items())
    rng.shuffle(items)
    if pre == "stale" and rng.random() < 0.5:
        # a channel that shrank since it was last signed: far more stale signature bytes than new ones
        for j in range(rng.choice([50, 200])):
            doc["signatures"]["gone-%d-1.0-0.tar.bz2" % j] = {"ab" * 32: {"signature": "cd" * 64}}
    prior = rng.choice([None, None, None, "missing", "empty", "no_packages", "packages_not_object", "not_json", "bad_key", "unserializable_artifact"])
    return {"kind": "doc", "via": rng.choice(["api", "api", "cli"]), "prior_failure": prior, "doc": dict(items), "seed": seed_hex, "pre": pre, "extra": extra,
            "layout": rng.choice(["compact", "compact", "canonical", "wide", "wide"])}


def expected_doc(doc, key):
    exp = copy.deepcopy(doc)
    sigs = {}
    for sec in ("packages", "packages.conda"):
        for name, md in doc.get(sec, {}).items():
            sigs[name] = {key.hex: {"signature": ed25519.sign(key.seed, canonjson.canon(md)).hex()}}
    exp["signatures"] = sigs
    return exp


def check_case(case, rec, lib, scratch):
    S, C, A = lib.signing, lib.common, lib.authentication
    doc = case["doc"]
    key = gkeys.from_seed_hex(case["seed"])
    npk, nco = len(doc["packages"]), len(doc.get("packages.conda", {}))
    rec.case("%d|%d|%s|%s|%s|%s" % (npk, nco, case["pre"], case["extra"], case["seed"][:8], case.get("layout")), nontrivial=npk + nco > 0)
    rec.hist("input_layout", case.get("layout", "compact"))
    fn = os.path.join(scratch, "repodata.json")
    layout = case.get("layout", "compact")
    prior = case.get("prior_failure")
    if prior:
        # history: an earlier attempt on the SAME path, in the same process, failed (file not there yet / still empty / not yet a
        # repodata document / wrong key); the file is then put right and signed.  The earlier failure must leave nothing behind.
        try:
            os.unlink(fn)
        except OSError:
            pass
        pk = key.seed.hex()
        if prior == "empty":
            open(fn, "wb").close()
        elif prior == "no_packages":
            with open(fn, "w") as f:
                f.write('{"info": {}}')
        elif prior == "packages_not_object":
            with open(fn, "w") as f:
                f.write('{"packages": [1, 2]}')
        elif prior == "not_json":
            with open(fn, "w") as f:
                f.write("{")
        elif prior == "bad_key":
            with open(fn, "w") as f:
                f.write('{"packages": {}}')
            pk = "zz" * 32
        elif prior == "unserializable_artifact":
            with open(fn, "w") as f:
                f.write('{"packages": {"a-1-0.tar.bz2": {"n": 1e999}, "b-1-0.tar.bz2": %s}}' % ("[" * 3000 + "]" * 3000))
        # "missing": no file at all
        o0 = boundary.call(lib, S.sign_all_in_repodata, fn if prior != "other_spelling" else os.path.join(scratch, ".", "repodata.json"), pk)
        rec.hist("prior_failure", "%s:%s" % (prior, "return" if o0.accepted else o0.cls))
        rec.count("histories_with_prior_failed_attempt")
    with open(fn, "wb") as f:
        if layout == "canonical":
            f.write(canonjson.canon(doc))
        elif layout == "wide":
            # hand-edited / other tool: valid JSON, wider than canonical, so the signed output can be SHORTER than the input
            f.write(json.dumps(doc, indent=8).encode("utf-8") + b"\n\n")
        else:
            f.write(json.dumps(doc).encode("utf-8"))
    # what a JSON parser makes of the file is the "original document"
    with open(fn, "rb") as f:
        original = json.load(f)
    exp = expected_doc(original, key)
    exp_bytes = canonjson.canon(exp)
    via_cli = case.get("via") == "cli" and getattr(lib, "cli", None) is not None
    rec.hist("entry", "cli" if via_cli else "api")
    with probes.CallCounter(S, "serialize_and_sign") as cc:
        if via_cli:
            # the same signing through the command-line function (key read from a key file)
            kf = os.path.join(scratch, "key.hex")
            with open(kf, "w") as f:
                f.write(key.seed.hex() + "\n")
            try:
                out = boundary.call(lib, lib.cli.cli, ["sign-artifacts", fn, kf])
            except SystemExit as e:
                out = boundary.Outcome()
                out.kind, out.value = ("return", e.code)
            if out.accepted and out.value not in (0, None):
                rec.violation("sign-raises/sign-artifacts/nonzero-status-on-wellformed-document",
                              "sign-artifacts reported status %r for a well-formed repodata document and key" % (out.value,), case)
                return
        else:
            out = boundary.call(lib, S.sign_all_in_repodata, fn, key.seed.hex())
    if not out.accepted:
        rec.violation(boundary.mechanism("sign-raises", "sign_all_in_repodata", "return", out),
                      "signing a well-formed repodata document raised %s: %s" % (out.cls, (out.msg or "")[:120]), case)
        return
    with open(fn, "rb") as f:
        got = f.read()
    rec.count("artifacts_signed", npk + nco)
    if got != exp_bytes:
        why = "bytes differ"
        try:
            g = json.loads(got)
            if boundary.value_fingerprint(g) == boundary.value_fingerprint(exp):
                why = "same JSON value but file is not in canonical form"
            else:
                gs, es = g.get("signatures"), exp["signatures"]
                if not isinstance(gs, dict):
                    why = "signatures section is not an object"
                elif set(gs) != set(es):
                    why = "signatures section has entries for %d artifacts, expected %d (missing %d, stale/extra %d)" % (
                        len(gs), len(es), len(set(es) - set(gs)), len(set(gs) - set(es)))
                elif {k: v for k, v in g.items() if k != "signatures"} != {k: v for k, v in exp.items() if k != "signatures"} and \
                        boundary.value_fingerprint({k: v for k, v in g.items() if k != "signatures"}) != \
                        boundary.value_fingerprint({k: v for k, v in exp.items() if k != "signatures"}):
                    why = "something outside the signatures section changed"
                else:
                    why = "an entry differs from {signer: {signature: RFC8032 signature over the artifact's canonical metadata}}"
        except Exception as e:  # noqa: BLE001
            why = "file is not JSON any more (%s)" % type(e).__name__
        rec.violation("output/sign_all_in_repodata/" + why.split(" (")[0].replace(" ", "-")[:70], why, case)
        return
    if cc.calls and cc.calls != npk + nco:
        rec.count("hint_serialize_and_sign_call_count_differs_from_artifact_count")  # inner observation only: the file is what is judged
    rec.count("probe_serialize_and_sign_calls", cc.calls)
    # ---- client side --------------------------------------------------------------
    signed = json.loads(got)
    km = gmd.envelope(gmd.delegating("key_mgr", {"pkg_mgr": {"pubkeys": [key.hex], "threshold": 1}}))
    arts = []
    for sec in ("packages", "packages.conda"):
        for name, md in signed.get(sec, {}).items():
            arts.append((name, md))
    rng = random.Random(case["seed"])
    sample = arts if len(arts) <= 12 else rng.sample(arts, 12)
    for name, md in sample:
        env = S.wrap_as_signable(md)
        env["signatures"] = copy.deepcopy(signed["signatures"][name])
        o = boundary.call(lib, A.verify_delegation, "pkg_mgr", env, km)
        rec.count("client_verifications")
        if not o.accepted:
            rec.violation(boundary.mechanism("client", "verify_delegation[pkg_mgr]", "accept", o),
                          "artifact signature does not verify against its own metadata through a pkg_mgr delegation", case)
            return
    # cross-artifact: A's entry on B's different metadata
    for _ in range(min(6, len(arts))):
        (na, ma), (nb, mb) = rng.choice(arts), rng.choice(arts)
        if canonjson.canon(ma) == canonjson.canon(mb):
            continue
        env = S.wrap_as_signable(mb)
        env["signatures"] = copy.deepcopy(signed["signatures"][na])
        o = boundary.call(lib, A.verify_delegation, "pkg_mgr", env, km)
        rec.count("cross_artifact_checks")
        if o.accepted:
            rec.violation("client/verify_delegation[pkg_mgr]/signature-verifies-on-other-artifact",
                          "signature of one artifact verifies against another artifact's different metadata", case)
            return
        if o.family != "SignatureError":
            rec.violation(boundary.mechanism("client", "verify_delegation[cross]", "SignatureError", o), "cross-artifact rejection class", case)
    # idempotence
    o = boundary.call(lib, S.sign_all_in_repodata, fn, key.seed.hex())
    with open(fn, "rb") as f:
        again = f.read()
    rec.count("idempotence_checks")
    if not o.accepted or again != got:
        rec.violation("idempotence/sign_all_in_repodata/second-run-changes-file", "signing again changed the file (%s)" % o.brief(), case)
    # signing with ANOTHER key replaces every entry (no stale signer left)
    k2 = gkeys.key(12)
    o = boundary.call(lib, S.sign_all_in_repodata, fn, k2.seed.hex())
    with open(fn, "rb") as f:
        third = f.read()
    if o.accepted and third != canonjson.canon(expected_doc(original, k2)):
        rec.violation("output/sign_all_in_repodata/resign-with-other-key-not-clean", "re-signing with another key leaves traces of the first run", case)


def run_threads(spec, rec, lib):
    """DIFFERENT repodata files signed with DIFFERENT keys at the same time: every file ends up as the expected signed form
    of its own document under its own key"""
    from ..engines import threads

    rng = random.Random(spec["seed"])
    S = lib.signing
    T = spec["threads"]
    for rnd in range(spec["count"]):
        jobs, meta = [], []
        for t in range(T * 2):
            case = gen_doc(rng)
            key = gkeys.from_seed_hex(case["seed"])
            fn = os.path.join(spec["scratch"], "thr-%d-%d" % (rnd, t), "repodata.json")
            os.makedirs(os.path.dirname(fn), exist_ok=True)
            with open(fn, "wb") as f:
                f.write(json.dumps(case["doc"]).encode("utf-8"))
            with open(fn, "rb") as f:
                original = json.load(f)
            jobs.append((S.sign_all_in_repodata, (fn, key.seed.hex()), {}))
            meta.append((fn, canonjson.canon(expected_doc(original, key)), case))
        res = threads.run_calls(lib, jobs, T, rec, spec["seed"] * 100 + rnd, prob=0.1, label="sign_all_in_repodata")
        if res is None:
            return
        for (fn, exp, case), out in zip(meta, res):
            if out is None:
                continue
            rec.case("thr|%d|%s" % (T, case["seed"][:8]))
            with open(fn, "rb") as f:
                got = f.read()
            if not out.accepted:
                rec.violation(boundary.mechanism("sign-raises", "sign_all_in_repodata[threads]", "return", out),
                              "signing a well-formed repodata document raised %s while other files were being signed" % out.cls, case)
            elif got != exp:
                rec.violation("output/sign_all_in_repodata/under-threads/file-is-not-the-expected-signed-document",
                              "a file signed while %d other threads signed other files is not the expected signed form of its own document" % (T - 1), case)


def run_shard(spec, rec, lib):
    if spec.get("kind") == "threads":
        return run_threads(spec, rec, lib)
    rng = random.Random(spec["seed"])
    for i in range(spec["count"]):
        case = gen_doc(rng, big=(i % 5 == 4))
        check_case(case, rec, lib, spec["scratch"])
        if i < 1:
            d = case["doc"]
            rec.sample({"packages": list(d["packages"])[:4], "n_packages": len(d["packages"]),
                        "n_conda": len(d.get("packages.conda", {})), "pre_existing_signatures": case["pre"],
                        "top_level": list(d)})


def finish(merged, tier, seed):
    if merged.counters.get("client_verifications", 0) == 0:
        merged.inconclusive_because("client-side monitor observed nothing")


def replay(case, rec, lib):
    import shutil
    import tempfile

    d = tempfile.mkdtemp(prefix="vf_c11_")
    try:
        check_case(case, rec, lib, d)
    finally:
        shutil.rmtree(d, ignore_errors=True)
