"""C12 - verification is pure: no argument mutation, no state carried across calls."""
import copy
import hashlib
import os
import random
import sys
import threading

from .. import lib as vlib
from ..engines import delegation, envelope, inplace, rootchain
from ..gen import entries as gentries, jsonvals, keys as gkeys, metadata as gmd, palette
from ..monitors import boundary, sysmon
from ..refs import canonjson, models
from . import c07

RULE = (
    "(1) arguments: structural fingerprints (order- and aliasing-sensitive) of all arguments before/after every call of the "
    "verifiers, validators, builders and wrap (the C01/C03/C05 generators plus valid/invalid documents); wrap aliasing: mutate "
    "either side after wrapping. (2) histories: a seeded pool of keys, payloads, envelopes (incl. the same signature on different "
    "payloads, same payload under different key lists), root chains and delegations; call sequences over the SHARED pool objects; "
    "each verdict compared with the same call in a fresh module instance, in reversed and shuffled order, and (sampled) in a fresh "
    "process. (3) schedules: 2-16 threads run overlapping shuffled slices of the call list over the same shared objects with "
    "sys.monitoring yield injection between library lines; verdicts compared with the sequential baseline, pool fingerprints at the "
    "quiescent points; context switches inside library code are counted. (4) configurations: the call corpus in fresh processes "
    "under a matrix of hash seeds, locales, stdout encodings, cwd, -O/-I, TZ and pre-import sets. distinct = (sub-monitor, call "
    "descriptor | configuration); non-trivial = all."
)
RULE_ADDENDUM = (
    'Additional: process-state panel (the same calls sensitive to interpreter-wide settings at the start and at the end of every shard, every kind of unrelated activity provoked in between); wrap aliasing through tuples.'
)
RULE = RULE + " " + RULE_ADDENDUM
LIMITS = ["interleavings are sampled, not enumerated; C-level atomic sections cannot be split; no claim for free-threaded builds",
          "module-level container growth is logged as a hint only (a correctly keyed cache is legal)"]
ASSUMPTIONS = ["exception classes are compared by qualified name across module instances"]

CONFIGS = c07.CONFIGS + [
    {"name": "stdout-latin1", "stdout_encoding": "latin-1"},
    {"name": "stdout-utf16", "stdout_encoding": "utf-16"},
    {"name": "stdout-ascii", "stdout_encoding": "ascii"},
    {"name": "pre-hashes-backends", "preimport": ["cryptography.hazmat.primitives.hashes", "cryptography.hazmat.backends"]},
    {"name": "pre-root_signing", "preimport": ["conda_content_trust.root_signing"]},
    {"name": "pre-reverse-order", "preimport": ["conda_content_trust.cli", "conda_content_trust.root_signing", "conda_content_trust.metadata_construction",
                                                "conda_content_trust.signing", "conda_content_trust.authentication", "conda_content_trust.common"]},
    {"name": "pre-signing-only", "preimport": ["conda_content_trust.signing"]},
    {"name": "warnings-error-UserWarning", "pyargs": ["-W", "error::UserWarning"]},
    {"name": "PYTHONWARNINGS=error::UserWarning", "env": {"PYTHONWARNINGS": "error::UserWarning,error::RuntimeWarning"}},
    {"name": "pre-strictwarnings", "preimport": ["vf.monitors.strictwarnings"]},
]


def plan(tier, seed):
    q = tier == "quick"
    specs = []
    for _ in range(3 if q else 8):
        specs.append({"kind": "args", "count": 1000 if q else 10000})
    specs.append({"kind": "inplace", "count": 50 if q else 600})
    for i in range(4 if q else 16):
        specs.append({"kind": "history", "pool_seed": seed * 31 + i, "calls": 400 if q else 2000})
    for T in ([4, 8] if q else [2, 4, 8, 16]):
        specs.append({"kind": "threads", "threads": T, "pool_seed": seed * 31 + 100 + T, "calls": 500 if q else 2500})
    cfgs = [c for c in CONFIGS if c["name"] in ("default", "hashseed4242", "LC_ALL=C", "-I", "stdout-ascii", "pre-reverse-order",
                                                "pre-hashes-backends", "cwd=nonascii", "stdout-utf16", "warnings-error-UserWarning", "pre-strictwarnings")] if q else CONFIGS
    for c in cfgs:
        s = {"kind": "corpus", "config": c["name"], "pool_seed": seed * 31 + 7, "calls": 160 if q else 600, "seed": seed, "seed_fixed": True}
        for k in ("hashseed", "env", "cwd", "pyargs", "stdout_encoding", "preimport", "setlocale"):
            if k in c:
                s[k] = c[k]
        specs.append(s)
    for i in range(4 if q else 24):
        specs.append({"kind": "corpus", "config": "fresh-process-%d" % i, "pool_seed": seed * 31 + 7, "calls": 160 if q else 600,
                      "seed": seed, "seed_fixed": True, "only": i, "of": 4 if q else 24})
    return specs


# ---- pool and call corpus --------------------------------------------------------------
def build_pool(seed):
    rng = random.Random(seed)
    K = [gkeys.key(i) for i in range(6)]
    payloads = []
    while len(payloads) < 6:
        p = jsonvals.rand_payload(rng)
        if not c07.has_pair(p):
            payloads.append(p)
    payloads.append({"a": 1, "é\ud800": [1.5, None]})
    envs = []
    for pi, p in enumerate(payloads):
        data = canonjson.canon(p)
        for gpg in (False, True):
            signers = rng.sample(K, rng.randint(1, 4))
            e = gmd.envelope(p)
            for k in signers:
                e["signatures"][k.hex] = gentries.make(rng.choice(gentries.valid_states(gpg)), gpg, k, data, rng, p)
            if rng.random() < 0.5:
                jk, jv = gentries.junk_pair(rng)
                e["signatures"][jk] = jv
            envs.append({"env": e, "gpg": gpg, "payload": pi})
    # related neighbours: the same signature entries on ANOTHER payload
    for i in range(0, len(envs), 3):
        src = envs[i]
        other = payloads[(src["payload"] + 1) % len(payloads)]
        envs.append({"env": {"signatures": copy.deepcopy(src["env"]["signatures"]), "signed": other}, "gpg": src["gpg"],
                     "payload": -1})
    auths = [[k.hex for k in rng.sample(K, n)] for n in (1, 2, 3, 4, 6, 2, 3)]
    auths.append([K[0].hex, K[0].hex, K[1].hex])
    # root chain and delegations
    roots = []
    ks = [K[0], K[1]]
    t = 1
    v = rng.choice([1, 5])
    prev = rootchain.signed_root(v, ks, t, ks, rng, km_keys=[K[5]])
    roots.append(prev)
    for i in range(3):
        ks2 = rng.choice([ks, ks[1:] + [K[2 + i]], ks + [K[2 + i]]])
        t2 = rng.randint(1, len(ks2))
        signers = {k.hex: k for k in ks[:t] + ks2[:t2]}
        nxt = rootchain.signed_root(v + i + 1, ks2, t2, list(signers.values()), rng, km_keys=[K[5]], junk=i % 2)
        roots.append(nxt)
        ks, t = ks2, t2
    # delegating-SHAPED documents whose type is not a supported one (arbitrary signed payloads for the verifier)
    odd = []
    for tname in ("mirror_mgr", "pkg_mgr", "Root", ""):
        od = gmd.sign_env(gmd.envelope(gmd.delegating(tname, {"pkg_mgr": gmd.delegation([K[3]], 1)})), [K[4], K[5]], False, rng)
        odd.append(od)
    km_signed = gmd.delegating("key_mgr", {"pkg_mgr": gmd.delegation([K[4]], 1)})
    km = gmd.sign_env(gmd.envelope(km_signed), [K[5]], False, rng)
    pkg = gmd.sign_env(gmd.envelope(payloads[0]), [K[4]], False, rng)
    return {"K": K, "payloads": payloads, "envs": envs, "auths": auths, "roots": roots, "km": km, "pkg": pkg, "odd": odd}


def build_calls(pool, seed, n):
    rng = random.Random(seed ^ 0x5EED)
    calls = []
    ne, na, nr = len(pool["envs"]), len(pool["auths"]), len(pool["roots"])
    while len(calls) < n:
        r = rng.random()
        if r < 0.5:
            e = rng.randrange(ne)
            a = rng.randrange(na)
            t = rng.randint(1, 3)
            calls.append(("verify_signable", e, a, t, pool["envs"][e]["gpg"]))
            # related neighbours: same key list, the transplanted twin; same envelope, other key list / threshold / mode
            if rng.random() < 0.5:
                calls.append(("verify_signable", (e + 1) % ne, a, t, pool["envs"][e]["gpg"]))
            if rng.random() < 0.4:
                calls.append(("verify_signable", e, (a + 1) % na, t + 1, pool["envs"][e]["gpg"]))
            if rng.random() < 0.2:
                calls.append(("verify_signable", e, a, t, not pool["envs"][e]["gpg"]))
        elif r < 0.7:
            i, j = rng.randrange(nr), rng.randrange(nr)
            if rng.random() < 0.6:
                j = min(nr - 1, i + 1)
            calls.append(("verify_root", i, j))
        elif r < 0.85:
            which = rng.choice(["km", "pkg", "root_as_km", "km_as_root", "unknown"])
            calls.append(("verify_delegation", which, rng.randrange(nr)))
        elif r < 0.88:
            calls.append(("checkformat", rng.choice(["root", "km", "env", "odd"]), rng.randrange(max(nr, ne))))
        elif r < 0.91:
            # construction calls (valid and failing) for assorted type names, interleaved with the verifications
            calls.append(("build", rng.choice(["mirror_mgr", "pkg_mgr", "root", "key_mgr", "Root", ""]), rng.choice(["ok", "bad_timestamp", "bad_delegations"])))
            calls.append(("verify_delegation", "odd_as_pkg", rng.randrange(4)))
            calls.append(("verify_delegation", "odd_as_own", rng.randrange(4)))
        elif r < 0.95:
            calls.append(("canonserialize", rng.randrange(len(pool["payloads"]))))
        else:
            calls.append(("wrap", rng.randrange(len(pool["payloads"]))))
    return calls[:n]


def do_call(lib, pool, c):
    """execute one call descriptor over the SHARED pool objects; returns verdict string"""
    A, C, S = lib.authentication, lib.common, lib.signing
    k = c[0]
    if k == "verify_signable":
        o = boundary.call(lib, A.verify_signable, pool["envs"][c[1]]["env"], pool["auths"][c[2]], c[3], gpg=c[4])
    elif k == "verify_root":
        o = boundary.call(lib, A.verify_root, pool["roots"][c[1]], pool["roots"][c[2]])
    elif k == "verify_delegation":
        root = pool["roots"][c[2]]
        if c[1] == "km":
            o = boundary.call(lib, A.verify_delegation, "key_mgr", pool["km"], root)
        elif c[1] == "pkg":
            o = boundary.call(lib, A.verify_delegation, "pkg_mgr", pool["pkg"], pool["km"])
        elif c[1] == "root_as_km":
            o = boundary.call(lib, A.verify_delegation, "key_mgr", pool["roots"][(c[2] + 1) % len(pool["roots"])], root, gpg=True)
        elif c[1] == "km_as_root":
            o = boundary.call(lib, A.verify_delegation, "root", pool["km"], root)
        elif c[1] in ("odd_as_pkg", "odd_as_own"):
            od = pool["odd"][c[2] % len(pool["odd"])]
            role = "pkg_mgr" if c[1] == "odd_as_pkg" else od["signed"]["type"]
            o = boundary.call(lib, A.verify_delegation, role, od, pool["km"])
        else:
            o = boundary.call(lib, A.verify_delegation, "nope", pool["km"], root)
    elif k == "checkformat":
        obj = {"root": pool["roots"][c[2] % len(pool["roots"])], "km": pool["km"], "env": pool["envs"][c[2] % len(pool["envs"])]["env"],
               "odd": pool["odd"][c[2] % len(pool["odd"])]}[c[1]]
        o = boundary.call(lib, C.checkformat_delegating_metadata, obj)
    elif k == "build":
        kw = {"metadata_type": c[1], "delegations": {"x": {"pubkeys": [pool["K"][0].hex], "threshold": 1}}, "version": 3,
              "timestamp": "2021-01-01T00:00:00Z", "expiration": "2031-01-01T00:00:00Z"}
        if c[2] == "bad_timestamp":
            kw["timestamp"] = "yesterday"
        elif c[2] == "bad_delegations":
            kw["delegations"] = {"x": {"pubkeys": ["not a key"], "threshold": 0}}
        o = boundary.call(lib, lib.metadata_construction.build_delegating_metadata, **kw)
        if o.accepted:
            return "R:" + boundary.value_fingerprint(o.value)[:16]
    elif k == "canonserialize":
        o = boundary.call(lib, C.canonserialize, pool["payloads"][c[1]])
        if o.accepted:
            return "R:" + hashlib.sha256(o.value).hexdigest()[:16]
    elif k == "wrap":
        o = boundary.call(lib, S.wrap_as_signable, pool["payloads"][c[1]])
        if o.accepted:
            return "R:" + boundary.value_fingerprint(o.value)[:16]
    else:
        raise ValueError(k)
    return "A" if o.accepted else "E:" + str(o.cls)


# ---- (1) arguments ---------------------------------------------------------------------
def run_args(spec, rec, lib):
    rng = random.Random(spec["seed"])
    C, S, M, A = lib.common, lib.signing, lib.metadata_construction, lib.authentication
    for i in range(spec["count"]):
        r = i % 6
        if r == 0:
            case = envelope.gen_case(rng)
            _m, out, mutated, _s = envelope.evaluate(case, lib)
            fn = "verify_signable"
        elif r == 1:
            case = rootchain.gen_pair(rng)
            if i % 4 == 1 and isinstance(case["trusted"].get("signed"), dict) and isinstance(case["new"].get("signatures"), dict):
                # an offer that carries NO entry from any key of the rule in force, against a trusted key list in descending order (and
                # the offered one too): whatever the refusal message needs, it does not reorder the caller's lists
                try:
                    for doc in (case["trusted"], case["new"]):
                        pk = doc["signed"]["delegations"]["root"]["pubkeys"]
                        pk.sort(reverse=True)
                    for h in list(case["new"]["signatures"]):
                        if h in case["trusted"]["signed"]["delegations"]["root"]["pubkeys"]:
                            del case["new"]["signatures"][h]
                    case["row"] = "no-entry-from-rule-in-force"
                except (KeyError, TypeError, AttributeError):
                    pass
            _m, _f, out, mutated = rootchain.evaluate(case, lib)
            fn = "verify_root"
        elif r == 2:
            case = delegation.gen_case(rng)
            _m, _f, out, mutated = delegation.evaluate(case, lib)
            fn = "verify_delegation"
        elif r == 3:
            # validators on documents
            case = rootchain.gen_pair(rng, rng.choice(["accept", "new_malformed"]))
            doc = copy.deepcopy(case["new"])
            fp = boundary.fingerprint(doc)
            name = rng.choice(["checkformat_delegating_metadata", "checkformat_signable", "is_signable", "checkformat_any_signature",
                               "checkformat_delegations"])
            arg = doc
            if name == "checkformat_any_signature" and isinstance(doc.get("signatures"), dict) and doc["signatures"]:
                arg = next(iter(doc["signatures"].values()))
            if name == "checkformat_delegations" and isinstance(doc.get("signed"), dict):
                arg = doc["signed"].get("delegations")
            if rng.random() < 0.3 and type(arg) is dict:
                # the same content held in a mapping with a __missing__ hook (collections.defaultdict): looking must not insert
                import collections

                arg = collections.defaultdict(rng.choice([str, dict, lambda: None, lambda: palette.SIG]), arg)
                fp_dd = boundary.fingerprint(dict(arg))
                out = boundary.call(lib, getattr(C, name), arg)
                if boundary.fingerprint(dict(arg)) != fp_dd:
                    rec.violation("argument-mutation/" + name + "/defaultdict-gained-entries",
                                  "%s inserted entries into (or otherwise changed) the mapping it was asked to check" % name,
                                  {"kind": "validator", "fn": name, "doc": case["new"]})
                rec.count("defaultdict_held_arguments")
            out = boundary.call(lib, getattr(C, name), arg)
            mutated = boundary.fingerprint(doc) != fp
            fn = name
            case = {"kind": "validator", "fn": name, "doc": case["new"]}
        elif r == 4:
            # wrapping copies: later changes to either side do not affect the other
            p = jsonvals.rand_value(rng, 0, 4, 3)
            if type(p) not in (dict, list):
                p = {"k": [p, {"n": [1, 2]}]}
            if rng.random() < 0.3:
                # tuples are among the library's supported serializable types: containers reached THROUGH a tuple are part of the payload
                inner = jsonvals.rand_value(rng, 0, 2, 3)
                p = rng.choice([{"ranges": ([1, 2], [3, 4]), "deps": ({"name": "a", "v": inner},), "p": p},
                                ([1, inner], {"k": "v"}),
                                [({"a": [1]},), p],
                                {"t": (1, ("x", [inner, 2]))}])
                rec.count("wrap_payloads_with_tuples")
            fp_p = boundary.fingerprint(p)
            out = boundary.call(lib, S.wrap_as_signable, p)
            mutated = boundary.fingerprint(p) != fp_p
            fn = "wrap_as_signable"
            case = {"kind": "wrap", "payload": copy.deepcopy(p)}
            if out.accepted and not mutated:
                env = out.value
                fp_e = boundary.fingerprint(env["signed"])
                _mutate_deep(p, rng)
                rec.count("wrap_alias_checks")
                if boundary.fingerprint(env["signed"]) != fp_e:
                    rec.violation("aliasing/wrap_as_signable/envelope-follows-later-change-of-original",
                                  "changing the original payload after wrapping changed the envelope", case)
                fp_p2 = boundary.fingerprint(p)
                _mutate_deep(env["signed"], rng)
                if boundary.fingerprint(p) != fp_p2:
                    rec.violation("aliasing/wrap_as_signable/original-follows-later-change-of-envelope",
                                  "changing the envelope's payload changed the caller's object", case)
        else:
            kw = {"root_version": 2, "root_pubkeys": [palette.HK, palette.HK2], "root_threshold": 1, "key_mgr_pubkeys": [palette.HK2],
                  "key_mgr_threshold": 1}
            fp = boundary.fingerprint(kw)
            out = boundary.call(lib, M.build_root_metadata, **kw)
            mutated = boundary.fingerprint(kw) != fp
            fn = "build_root_metadata"
            case = {"kind": "builder"}
            if out.accepted:
                # the result must not alias the caller's key lists in a way that later verification mutates
                md = out.value
                env = {"signatures": {}, "signed": md}
                fp2 = boundary.fingerprint(env)
                boundary.call(lib, A.verify_delegation, "key_mgr", {"signatures": {}, "signed": {"type": "key_mgr"}}, env)
                if boundary.fingerprint(env) != fp2:
                    mutated = True
                    fn = "verify_delegation[trusted=builder output]"
        rec.case("args|%s|%s" % (fn, (case.get("stratum") or case.get("row") or case.get("kind"))))
        rec.hist("args_fn", fn)
        rec.count("argument_fingerprint_checks")
        if mutated:
            rec.violation("argument-mutation/" + fn, "%s modified (re-ordered, normalised or aliased) an object passed to it" % fn, case)
        if i < 1:
            rec.sample({"args_monitor": fn, "outcome": out.as_json()})


def _mutate_deep(v, rng):
    """in-place change somewhere deep inside a container"""
    cur = v
    for _ in range(8):
        if type(cur) is tuple and cur:
            muts = [x for x in cur if type(x) in (dict, list, tuple) and x]
            if not muts:
                return
            cur = rng.choice(muts)
            continue
        if type(cur) is dict and cur:
            k = rng.choice(list(cur))
            if type(cur[k]) in (dict, list) and cur[k] and rng.random() < 0.7 or (type(cur[k]) is tuple and any(type(x) in (dict, list, tuple) for x in cur[k])):
                cur = cur[k]
                continue
            cur[k] = "MUTATED"
            return
        if type(cur) is list and cur:
            i = rng.randrange(len(cur))
            if type(cur[i]) in (dict, list) and cur[i] and rng.random() < 0.7 or (type(cur[i]) is tuple and any(type(x) in (dict, list, tuple) for x in cur[i])):
                cur = cur[i]
                continue
            cur[i] = "MUTATED"
            return
        break
    if type(cur) is dict:
        cur["MUTATED"] = 1
    elif type(cur) is list:
        cur.append("MUTATED")


# ---- (2) histories ---------------------------------------------------------------------
def module_state_sizes(lib):
    sizes = {}
    for mn in ("common", "authentication", "signing", "metadata_construction", "root_signing"):
        mod = getattr(lib, mn)
        if mod is None:
            continue
        for name, val in vars(mod).items():
            if name.startswith("__"):
                continue
            if isinstance(val, (dict, list, set)):
                sizes["%s.%s" % (mn, name)] = len(val)
            ci = getattr(val, "cache_info", None)
            if callable(ci):
                try:
                    sizes["%s.%s.cache" % (mn, name)] = ci().currsize
                except Exception:
                    pass
    return sizes


def run_history(spec, rec, lib):
    pool = build_pool(spec["pool_seed"])
    calls = build_calls(pool, spec["pool_seed"], spec["calls"])
    fp0 = boundary.fingerprint(pool_objects(pool))
    st0 = module_state_sizes(lib)
    hist = [do_call(lib, pool, c) for c in calls]
    rec.count("history_calls", len(calls))
    if boundary.fingerprint(pool_objects(pool)) != fp0:
        rec.violation("argument-mutation/history/shared-pool-object-changed", "a shared pool object changed during the call history",
                      {"kind": "history", "pool_seed": spec["pool_seed"], "calls": spec["calls"]})
    st1 = module_state_sizes(lib)
    grown = {k: (st0.get(k, 0), v) for k, v in st1.items() if v != st0.get(k, 0)}
    if grown:
        rec.count("hint_module_state_grew")
        rec.extra["module_state_growth"] = {k: list(v) for k, v in grown.items()}
    case = {"kind": "history", "pool_seed": spec["pool_seed"], "calls": spec["calls"]}
    # (a) fresh module instance, fresh pool, each call ALONE in shuffled order
    fresh = vlib.fresh_instance()
    pool2 = build_pool(spec["pool_seed"])
    order = list(range(len(calls)))
    random.Random(spec["seed"]).shuffle(order)
    for i in order:
        v = do_call(fresh, pool2, calls[i])
        rec.count("fresh_instance_reevaluations")
        rec.case("hist|%r" % (calls[i],))
        if v != hist[i]:
            rec.violation("history-dependence/%s/verdict-differs-in-fresh-instance" % calls[i][0],
                          "call %d %r: %s in the history, %s in a fresh module instance (shuffled order)" % (i, calls[i], hist[i], v),
                          dict(case, index=i))
            break
    # (c) reversed history in the SAME instance, same shared pool
    rev = {}
    for i in reversed(range(len(calls))):
        rev[i] = do_call(lib, pool, calls[i])
    rec.count("reversed_reevaluations", len(calls))
    for i in range(len(calls)):
        if rev[i] != hist[i]:
            rec.violation("history-dependence/%s/verdict-differs-in-reversed-order" % calls[i][0],
                          "call %d %r: %s forward, %s in reversed order" % (i, calls[i], hist[i], rev[i]), dict(case, index=i))
            break
    # repeat each call immediately twice
    for i in range(0, len(calls), 3):
        a, b = do_call(lib, pool, calls[i]), do_call(lib, pool, calls[i])
        if a != b or a != hist[i]:
            rec.violation("history-dependence/%s/verdict-differs-when-repeated" % calls[i][0],
                          "call %r: %s, then %s, history %s" % (calls[i], a, b, hist[i]), dict(case, index=i))
            break
    # model agreement for the envelope calls (ties the history to an absolute reference)
    for i, c in enumerate(calls):
        if c[0] == "verify_signable":
            m = models.threshold_verdict(pool["envs"][c[1]]["env"], pool["auths"][c[2]], c[3], c[4])
            if m.v != models.GREY and (m.v == models.ACCEPT) != (hist[i] == "A"):
                rec.violation("history/verify_signable/verdict-differs-from-model", "call %r: %s, model %s" % (c, hist[i], m.v), dict(case, index=i))
                break
    rec.extra["vector_digest"] = hashlib.sha256("|".join(hist).encode()).hexdigest()
    rec.sample({"history": [list(c) for c in calls[:6]], "verdicts": hist[:6]})


def pool_objects(pool):
    return [pool["payloads"], [e["env"] for e in pool["envs"]], pool["auths"], pool["roots"], pool["km"], pool["pkg"], pool["odd"]]


# ---- (3) schedules ---------------------------------------------------------------------
def run_threads(spec, rec, lib):
    T = spec["threads"]
    pool = build_pool(spec["pool_seed"])
    calls = build_calls(pool, spec["pool_seed"], spec["calls"])
    base_pool = build_pool(spec["pool_seed"])
    baseline = [do_call(lib, base_pool, c) for c in calls]
    fp0 = boundary.fingerprint(pool_objects(pool))
    rng = random.Random(spec["seed"])
    # overlapping shuffled slices: every call is executed by two different threads
    assign = [[] for _ in range(T)]
    for i in range(len(calls)):
        a = rng.randrange(T)
        b = (a + 1 + rng.randrange(T - 1)) % T
        assign[a].append(i)
        assign[b].append(i)
    for lst in assign:
        rng.shuffle(lst)
    results = [[] for _ in range(T)]
    errors = []
    start = threading.Barrier(T)

    def worker(t):
        try:
            start.wait()
            for i in assign[t]:
                results[t].append((i, do_call(lib, pool, calls[i])))
        except BaseException as e:  # noqa: BLE001
            errors.append("%s: %s" % (type(e).__name__, e))

    inj = sysmon.YieldInjector(lib.pkg_dir, random.Random(spec["seed"] + 1), prob=0.04)
    with inj:
        ths = [threading.Thread(target=worker, args=(t,)) for t in range(T)]
        for th in ths:
            th.start()
        for th in ths:
            th.join(600)
    alive = [th for th in ths if th.is_alive()]
    case = {"kind": "threads", "threads": T, "pool_seed": spec["pool_seed"], "calls": spec["calls"]}
    if alive:
        rec.inconclusive_because("thread workload did not finish within the watchdog")
        return
    if errors:
        rec.inconclusive_because("thread harness error: " + errors[0])
        return
    rec.count("threaded_calls", sum(len(r) for r in results))
    rec.count("line_events_under_threads", inj.line_events)
    rec.count("context_switches_inside_library", inj.switches)
    rec.count("distinct_switch_points", len(inj.switch_points))
    rec.count("distinct_overlapping_function_pairs", len(inj.func_pairs))
    rec.hist("threads", T)
    for t in range(T):
        for i, v in results[t]:
            rec.case("thr|%d|%r" % (T, calls[i]))
            if v != baseline[i]:
                rec.violation("schedule-dependence/%s/verdict-differs-under-threads" % calls[i][0],
                              "call %r: %s sequentially, %s in thread %d of %d (shared objects, injected yields)" % (calls[i], baseline[i], v, t, T),
                              dict(case, index=i))
                return
    if boundary.fingerprint(pool_objects(pool)) != fp0:
        rec.violation("argument-mutation/threads/shared-pool-object-changed", "shared objects differ after the threads joined", case)
    if inj.switches == 0:
        rec.inconclusive_because("no context switch inside library code was observed with %d threads" % T)
    rec.sample({"threads": T, "calls": len(calls), "switches_inside_library": inj.switches,
                "distinct_switch_points": len(inj.switch_points), "example_switch": list(next(iter(inj.switch_points))) if inj.switch_points else None})


# ---- (4) configurations / fresh processes ---------------------------------------------
def run_corpus(spec, rec, lib):
    if spec.get("setlocale"):
        import locale

        for loc in ("C.utf8", "C", "POSIX"):
            try:
                locale.setlocale(locale.LC_ALL, loc)
                break
            except locale.Error:
                continue
    pool = build_pool(spec["pool_seed"])
    calls = build_calls(pool, spec["pool_seed"], spec["calls"])
    idx = list(range(len(calls)))
    if "only" in spec:
        # fresh-process differential: this process executes only its own slice, each call alone
        idx = [i for i in idx if i % spec["of"] == spec["only"]]
    vec = {}
    for i in idx:
        vec[i] = do_call(lib, pool, calls[i])
        rec.case("cfg|%s|%d" % (spec["config"], i))
    rec.extra["vector"] = vec
    rec.extra["config"] = spec["config"]
    rec.hist("config", spec["config"] if "only" not in spec else "fresh-process")
    rec.count("corpus_calls", len(idx))


def run_inplace(spec, rec, lib):
    """verdicts follow the CURRENT content of long-lived arguments (no stale snapshots keyed on object identity)"""
    rng = random.Random(spec["seed"])
    for i in range(spec["count"]):
        for mech, msg, case in inplace.delegation_history(rng, lib, rec, "C12", steps=12) + inplace.envelope_history(rng, lib, rec, steps=12):
            rec.violation(mech, msg, case)
        rec.case("inplace|%d|%d" % (spec["seed"], i))
    rec.sample({"inplace_history": "long-lived trusted dict / envelope / key list mutated in place between calls"})


def _interpreter_settings():
    import decimal
    import gc
    import locale
    import warnings

    out = {"int_max_str_digits": sys.get_int_max_str_digits() if hasattr(sys, "get_int_max_str_digits") else None,
           "recursionlimit": sys.getrecursionlimit(), "gc_enabled": gc.isenabled(), "decimal_prec": decimal.getcontext().prec,
           "warnings_filters": len(warnings.filters), "cwd": os.getcwd()}
    try:
        out["locale"] = locale.setlocale(locale.LC_ALL)
    except Exception:  # noqa: BLE001
        out["locale"] = "?"
    um = os.umask(0)
    os.umask(um)
    out["umask"] = um
    return out


def _state_panel(lib):
    """verdicts that are sensitive to interpreter-wide settings (integer digit limit, recursion limit, locale ...): the SAME
    calls are made at the start and at the end of a shard"""
    A, C, S = lib.authentication, lib.common, lib.signing
    k = gkeys.key(2)
    big = {"signatures": {k.hex: {"signature": "ab" * 64}}, "signed": {"n": (10**5000 - 1)}}
    bigt = {"signatures": {}, "signed": {"n": 1}}
    deep = jsonvals.deep(400)
    calls = [
        ("verify_signable[5000-digit int in payload]", lambda: A.verify_signable(big, [k.hex], 1)),
        ("verify_signable[5000-digit threshold]", lambda: A.verify_signable(bigt, [k.hex], (10**5000 - 1))),
        ("canonserialize[5000-digit int]", lambda: C.canonserialize([(7 * (10**4400 - 1) // 9)])),
        ("canonserialize[depth 400]", lambda: len(C.canonserialize(deep))),
        ("wrap_as_signable[depth 400]", lambda: type(S.wrap_as_signable(deep)).__name__),
        ("checkformat_utc_isoformat", lambda: C.checkformat_utc_isoformat("2030-01-01T00:00:00Z") and None),
        ("canonserialize[float]", lambda: C.canonserialize([1.5, 1e22, 0.1])),
    ]
    out = []
    for name, f in calls:
        o = boundary.call(lib, f)
        out.append((name, "return:%r" % (o.value,) if o.accepted else "raise:" + str(o.cls)))
    return out


def run_shard(spec, rec, lib):
    if spec.get("kind") == "inplace":
        return run_inplace(spec, rec, lib)
    if spec.get("cwd") == "@nonascii":
        d = os.path.join(spec["scratch"], "dé中")
        os.makedirs(d, exist_ok=True)
        os.chdir(d)
    set0, panel0 = _interpreter_settings(), _state_panel(lib)
    {"args": run_args, "history": run_history, "threads": run_threads, "corpus": run_corpus}[spec["kind"]](spec, rec, lib)
    # nothing the library did during this shard (judged calls and the unrelated activity in between: file loads of odd documents,
    # interactive sessions, failing builders ...) may have changed an interpreter-wide setting that verdicts depend on
    from ..engines import noise

    ndir = os.path.join(spec.get("scratch") or ".", "provocations")
    os.makedirs(ndir, exist_ok=True)
    noise.provoke(lib, random.Random(spec.get("seed", 0)), ndir)
    set1, panel1 = _interpreter_settings(), _state_panel(lib)
    rec.count("process_state_panels_compared")
    changed = {k2: (set0[k2], v) for k2, v in set1.items() if set0.get(k2) != v}
    flips = [(a[0], a[1][:60], b[1][:60]) for a, b in zip(panel0, panel1) if a != b]
    if changed:
        rec.count("hint_interpreter_setting_changed")
        rec.extra["interpreter_settings_changed"] = {k2: [str(x) for x in v] for k2, v in changed.items()}
    if flips:
        rec.violation("history-dependence/process-wide-state/%s" % (",".join(sorted(changed)) or "unknown-setting"),
                      "the same call gives another outcome at the end of the shard than at its start: %s changed from %s to %s; interpreter settings "
                      "changed meanwhile: %s" % (flips[0][0], flips[0][1], flips[0][2], changed or "none of the monitored ones"),
                      {"kind": "process_state", "flips": [list(f) for f in flips], "settings": {k2: [str(x) for x in v] for k2, v in changed.items()}})


def finish(merged, tier, seed):
    vecs = {}
    for spec, extra in merged.extras:
        if "vector" in extra:
            vecs[extra["config"]] = {int(k): v for k, v in extra["vector"].items()}
    base = vecs.get("default")
    if base is None:
        merged.inconclusive_because("default configuration did not report")
        return
    merged.counters["configurations_compared"] = len(vecs) - 1
    for name, vec in sorted(vecs.items()):
        for i, v in sorted(vec.items()):
            if base.get(i) != v:
                kind = "fresh-process" if name.startswith("fresh-process") else "configuration"
                merged.violation(
                    "%s-dependence/verdict-differs/%s" % (kind, "fresh-process" if kind == "fresh-process" else name.replace("/", "_")),
                    "call #%d: %s in the default process, %s in %s" % (i, base.get(i), v, name),
                    {"kind": "corpus", "config": name, "index": i})
                break
    for need in ("context_switches_inside_library", "fresh_instance_reevaluations", "argument_fingerprint_checks", "wrap_alias_checks"):
        if merged.counters.get(need, 0) == 0:
            merged.inconclusive_because("monitor %s observed nothing" % need)


def evidence_extra(merged):
    growth = {}
    for _s, e in merged.extras:
        growth.update(e.get("module_state_growth", {}))
    return {"module_state_growth_hints": growth,
            "configurations": sorted(e.get("config") for _s, e in merged.extras if "config" in e and not str(e.get("config")).startswith("fresh-process"))}


def replay(case, rec, lib):
    k = case.get("kind")
    if k in ("history", "threads"):
        spec = {"pool_seed": case["pool_seed"], "calls": case["calls"], "seed": 1, "threads": case.get("threads", 4)}
        (run_history if k == "history" else run_threads)(spec, rec, lib)
    elif k == "env":
        _m, out, mutated, _s = envelope.evaluate(case, lib)
        rec.case("replay")
        if mutated:
            rec.violation("argument-mutation/verify_signable", "replay", case)
    elif k == "rootpair":
        _m, _f, out, mutated = rootchain.evaluate(case, lib)
        rec.case("replay")
        if mutated:
            rec.violation("argument-mutation/verify_root", "replay", case)
    elif k == "deleg":
        _m, _f, out, mutated = delegation.evaluate(case, lib)
        rec.case("replay")
        if mutated:
            rec.violation("argument-mutation/verify_delegation", "replay", case)
    elif k in ("inplace_deleg", "inplace_env"):
        run_inplace({"seed": 1, "count": 200}, rec, lib)
    else:
        run_args({"seed": 1, "count": 60}, rec, lib)
