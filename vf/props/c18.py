"""C18 - in-place signing is all-or-nothing with respect to failures (fault enumeration)."""
import copy
import json
import os
import random
import types

from .. import lib as vlib

from ..gen import jsonvals, keys as gkeys, metadata as gmd
from ..monitors import audit, boundary, gnupg, probes, sysmon
from ..refs import canonjson, ed25519, openpgp
from . import c11

RULE = (
    "targets: sign_all_in_repodata, sign_root_metadata_via_gpg (stub signer and real GnuPG stand-in), cli(['sign-artifacts',..]), "
    "cli(['gpg-sign',..]). Per target and document: a census run records every executed LINE and CALL event inside the library and, "
    "through an audit hook + file proxy, the event index of the first write-mode open of (or rename onto) the target and of the first "
    "write; then ONE RUN PER EVENT before the open (lines and calls) and per CALL event between open and first write, with a fault "
    "injected exactly there; after every failed run the target must be byte-identical to the original. Plus injected faults in the "
    "primitives (sign, dumps, load, GnuPG failure) and natural failures (not JSON, wrong container types, bad key, unreadable file, "
    "missing dependency). Ordering invariant on successful runs: at the first output event all signatures have been computed, and "
    "every close of a write handle leaves the target either original or complete. evaluations = injected + natural failing runs; "
    "distinct = (target, injection site file:function:line | natural failure class); exhaustive per document over its executed events."
)
RULE_ADDENDUM = (
    'Failpoints: line, call and callee-entry events (calls with argument unpacking raise no CALL event in CPython 3.12); between the first write-mode open and the first write only serialisation / signing calls are faulted; the exception class rotates over 16 classes; natural late failures (a never-signed part nested deeper than the serializer can go); back ends: missing, failing, key that is not ed25519.'
)
RULE = RULE + " " + RULE_ADDENDUM
LIMITS = ["failures during the final write itself and power loss are outside the statement",
          "failpoints are enumerated inside the library's own code; faults inside callees are injected at the call event"]
ASSUMPTIONS = ["sys.monitoring delivers every LINE/CALL event of library code objects (CPython 3.12)",
               "signing is deterministic, so the census trace is the trace of the injected runs up to the fault"]


def plan(tier, seed):
    q = tier == "quick"
    specs = []
    for i in range(6 if q else 24):
        specs.append({"kind": "repodata", "docs": 2 if q else 8, "target": "api" if i % 2 == 0 else "cli", "big": (not q) and i % 4 == 0})
    specs.append({"kind": "gpg", "target": "api", "stub": True, "docs": 1 if q else 4})
    specs.append({"kind": "gpg", "target": "cli", "stub": True, "docs": 1 if q else 4})
    specs.append({"kind": "gpg", "target": "api", "stub": False, "docs": 1 if q else 3, "shim": True})
    specs.append({"kind": "natural", "shim": False})
    specs.append({"kind": "natural_gpg", "shim": True})
    return specs


# ---------------------------------------------------------------------------------------
def make_stub_gpg(lib, key):
    """fast in-process stand-in for securesystemslib.gpg.functions (reference signer)"""
    fpr = "ab" * 20

    def create_signature(content, keyid=None, homedir=None):
        hdr = openpgp.gnupg_style_header(bytes.fromhex(fpr), 1600000000)
        e = openpgp.make_entry(key.seed, bytes(content), hdr)
        e["keyid"] = keyid
        return e

    def export_pubkey(keyid, homedir=None):
        return {"keyid": keyid, "keyval": {"private": "", "public": {"q": key.hex}}}

    return types.SimpleNamespace(create_signature=create_signature, export_pubkey=export_pubkey), fpr


class Target:
    """one in-place signing call on one file"""

    def __init__(self, lib, kind, path, original, expected_check, invoke, n_artifacts=None):
        self.lib, self.kind, self.path = lib, kind, path
        self.original = original
        self.expected_check = expected_check  # bytes -> bool : is this the complete signed document?
        self.invoke = invoke
        self.n_artifacts = n_artifacts

    def reset(self):
        with open(self.path, "wb") as f:
            f.write(self.original)

    def content(self):
        try:
            with open(self.path, "rb") as f:
                return f.read()
        except OSError:
            return None


def enumerate_target(tg, rec, label, max_events=None):
    lib = tg.lib
    # ---- census + ordering invariant ----------------------------------------------
    tg.reset()
    boundary.call(lib, tg.invoke)  # warm-up: first-time imports and caches are not part of the event sequence
    tg.reset()
    cen = sysmon.Census(lib.pkg_dir)
    bad_close = []

    def close_check(w):
        c = tg.content()
        if c != tg.original and not tg.expected_check(c):
            bad_close.append(len(cen.trace))

    watch = audit.FileWatch(tg.path, clock=lambda: len(cen.trace), on_close_check=close_check)
    S = lib.signing
    cc = probes.CallCounter(S, "serialize_and_sign")
    watch.at_open = lambda: cc.calls
    with cc:
        with watch:
            with cen:
                out = boundary.call(lib, tg.invoke)
    case = {"kind": "c18", "target": tg.kind, "label": label}
    rec.count("census_runs")
    if not out.accepted:
        rec.violation(boundary.mechanism("census", tg.kind, "return", out), "un-faulted signing run failed: %s" % (out.msg or "")[:160], case)
        return
    final = tg.content()
    if not tg.expected_check(final):
        rec.violation("census/%s/successful-run-did-not-produce-expected-document" % tg.kind, "successful run left an unexpected file", case)
        return
    if bad_close:
        rec.violation("ordering/%s/partially-signed-file-visible-after-close" % tg.kind,
                      "a write handle on the target was closed leaving a file that is neither the original nor the complete document "
                      "(event %d of %d)" % (bad_close[0], len(cen.trace)), case)
    if watch.first_output_idx is None:
        rec.inconclusive_because("output phase of %s not observed (no write-mode open / rename of the target seen)" % tg.kind)
        return
    if tg.n_artifacts is not None and cc.calls:
        rec.count("ordering_checks")
        if watch.extra_at_open is not None and watch.extra_at_open < tg.n_artifacts:  # (more calls than artifacts is not an ordering fault)
            rec.violation("ordering/%s/output-phase-starts-before-all-signatures-computed" % tg.kind,
                          "target opened for writing after %r of %d signatures" % (watch.extra_at_open, tg.n_artifacts), case)
    if watch.write_opens > 1:
        rec.count("multiple_write_opens")
    open_idx = watch.first_output_idx
    write_idx = watch.first_write_idx if watch.first_write_idx is not None else len(cen.trace)
    trace = cen.trace
    rec.count("census_events", len(trace))
    rec.count("events_before_output_phase", open_idx)
    # ---- one run per event ----------------------------------------------------------
    idxs = list(range(0, open_idx))
    # After the target has been opened the output phase has begun; the statement orders two things BEFORE it: computing the
    # signatures and serialising the result.  So between the open and the first write a fault is delivered only at calls of
    # serialisation / signing work (a streaming writer, an encode step moved behind the open), never at the writer's own
    # plumbing (memoryview, len, os.write, flush ...), where a failure is an output-phase failure the statement does not cover.
    for i in range(open_idx, min(write_idx, len(trace))):
        if trace[i][0] in ("C", "S") and _is_computation(trace[i][4]):
            idxs.append(i)
        elif trace[i][0] in ("C", "S"):
            rec.count("output_phase_plumbing_calls_not_faulted")
    if max_events and len(idxs) > max_events:
        rnd = random.Random(len(trace))
        idxs = sorted(rnd.sample(idxs, max_events))
        exhaustive = False
    else:
        exhaustive = True
    delivered = 0
    for i in idxs:
        ev = trace[i]
        tg.reset()
        # "fails for any reason": the exception class rotates with the event index (a handler written for one class - "section
        # absent", "not found", "interrupted" - must not take a failure of that class for something else and carry on)
        exc = FAULT_CLASSES[(i + len(trace)) % len(FAULT_CLASSES)]
        fp = sysmon.FailAt(lib.pkg_dir, i, ev[0], exc=exc)
        # same open() proxy as in the census run, so that both runs produce the same event sequence (callee entries
        # reached through the built-in open are attributed to its caller)
        with audit.FileWatch(tg.path):
            with fp:
                try:
                    o = boundary.call(lib, tg.invoke)
                except (KeyboardInterrupt, SystemExit, MemoryError) as e:
                    o = boundary.Outcome()
                    o.kind, o.exc, o.cls, o.family, o.msg = "raise", e, type(e).__name__, type(e).__name__, str(e)
        rec.hist("fault_class", exc.__name__)
        site = "%s:%s:%s" % (ev[1], ev[2], ev[3] if ev[0] == "L" else ("call " if ev[0] == "C" else "entry of ") + ev[4])
        phase = "before-open" if i < open_idx else "between-open-and-write"
        rec.case("%s|%s|%s" % (tg.kind, site, phase))
        if not fp.fired:
            rec.count("injections_not_delivered")
            rec.hist("not_delivered_by", "%s:%s" % (tg.kind, ev[0]))
            continue
        if not _same_event(fp.event, ev):
            # the faulted run did not replay the census run event for event: the phase label would be wrong
            rec.count("injection_site_mismatch")
            rec.hist("site_mismatch_by", "%s:%s" % (tg.kind, ev[0]))
            continue
        delivered += 1
        rec.count("injections_delivered")
        rec.hist("injection_phase", phase)
        after = tg.content()
        c2 = dict(case, event=i, site=site, phase=phase)
        if o.accepted and tg.kind.endswith(":cli") and o.value not in (0, None):
            # the command-line function reports failure through its return value (a predicate turned the injected error into
            # "not a valid key" -> ABORTED): a reported failure, so the file must be untouched
            rec.count("faults_reported_by_exit_status")
            if after != tg.original:
                rec.violation("atomicity/%s/file-changed-after-failure/%s" % (tg.kind, phase),
                              "fault injected at %s (%s): the command reported status %r but the file on disk changed" % (site, phase, o.value), c2)
        elif o.accepted:
            # fault swallowed: then the call claims success and must have produced the complete document
            rec.count("faults_swallowed")
            if after == tg.original:
                rec.count("faults_swallowed_file_untouched")  # nothing written: consistent with all-or-nothing (C17 judges the status)
            elif not tg.expected_check(after):
                rec.violation("atomicity/%s/fault-swallowed-and-file-incomplete" % tg.kind,
                              "fault at %s was swallowed, call returned, file is not the complete document" % site, c2)
        elif after != tg.original:
            how = "truncated/empty" if not after else ("partially signed" if after and after != tg.original else "changed")
            rec.violation("atomicity/%s/file-changed-after-failure/%s" % (tg.kind, phase),
                          "fault injected at %s (%s): the call failed (%s) but the file on disk changed (%s, %d -> %d bytes)"
                          % (site, phase, o.cls, how, len(tg.original), len(after or b"")), c2)
    rec.count("documents_enumerated")
    if exhaustive:
        rec.count("documents_enumerated_exhaustively")
    rec.extra.setdefault("per_document", []).append(
        {"target": tg.kind, "label": label, "events": len(trace), "open_idx": open_idx, "write_idx": write_idx,
         "injected": delivered, "exhaustive": exhaustive})
    # ---- faults inside the primitives ------------------------------------------------
    primitive_faults(tg, rec, case)
    tg.reset()


_COMPUTATION = ("dump", "encode", "serializ", "sign", "canon", "iterencode", "hexlify", "to_hex", "json")
_PLUMBING = ("write", "open", "close", "flush", "fsync", "__exit__", "__enter__", "memoryview", "len", "fspath", "replace", "rename", "mkstemp", "unlink")


def _is_computation(callee):
    c = callee.lower()
    if any(c == x or c.endswith("." + x) for x in _PLUMBING):
        return False
    return any(x in c for x in _COMPUTATION)


def _same_event(a, b):
    if a is None or a[:3] != b[:3]:
        return False
    if a[0] == "L":
        return a[3] == b[3]
    # callee names differ between the watched census run (file proxy) and the faulted run (real file object)
    return a[4] == b[4] or any(x in a[4] or x in b[4] for x in ("open", "write", "__exit__", "__enter__", "close"))


TARGET_NAMES = ["repodata.json", "repodata.json", "repodata.json.tmp", "repodata.tmp", "repodata.json.orig", "repodata.json.bak", "repodata",
                "current_repodata.json.new", "r\u00e9podata.json", "repo data.json", ".repodata.json", "repodata.json~"]


class Boom(Exception):
    pass


class _InjectedKeyError(KeyError):
    pass


FAULT_CLASSES = [sysmon.InjectedFault, KeyError, ValueError, OSError, RuntimeError, TypeError, AttributeError, IndexError, StopIteration,
                 _InjectedKeyError, UnicodeError, KeyboardInterrupt, MemoryError, ArithmeticError, FileNotFoundError, PermissionError]


def primitive_faults(tg, rec, case):
    """faults raised from inside callees (after they have been entered)"""
    lib = tg.lib
    C, S, R = lib.common, lib.signing, lib.root_signing
    sites = []
    if tg.kind.startswith("repodata"):
        n = max(1, tg.n_artifacts or 1)
        for k in sorted({1, n // 2 + 1, n}):
            for cls in (Boom, KeyError, _InjectedKeyError, LookupError, OSError, ValueError, KeyboardInterrupt):
                sites.append(("serialize_and_sign#%d[%s]" % (k, cls.__name__), S, "serialize_and_sign", k, cls))
        sites.append(("common.canonserialize(last)", C, "canonserialize", -1))
        sites.append(("signing.load_metadata_from_file", S, "load_metadata_from_file", 1))
        sites.append(("signing.write_metadata_to_file(entry)", S, "write_metadata_to_file", 1))
        sites.append(("common.dumps", C, "dumps", -1))
    else:
        sites.append(("root_signing.canonserialize", R, "canonserialize", 1))
        sites.append(("root_signing.sign_via_gpg", R, "sign_via_gpg", 1))
        sites.append(("root_signing.fetch_keyval_from_gpg", R, "fetch_keyval_from_gpg", 1))
        sites.append(("root_signing.load_metadata_from_file", R, "load_metadata_from_file", 1))
        sites.append(("root_signing.write_metadata_to_file(entry)", R, "write_metadata_to_file", 1))
        sites.append(("common.dumps", C, "dumps", -1))
    for site in sites:
        name, mod, attr, nth = site[:4]
        forced_cls = site[4] if len(site) > 4 else None
        if mod is None or not hasattr(mod, attr):
            rec.count("primitive_site_missing")
            continue
        real = getattr(mod, attr)
        # census of calls to know what "last" means
        count = [0]

        def counting(*a, **k):
            count[0] += 1
            return real(*a, **k)

        if nth == -1:
            tg.reset()
            setattr(mod, attr, counting)
            try:
                boundary.call(lib, tg.invoke)
            finally:
                setattr(mod, attr, real)
            target_n = count[0]
            if target_n == 0:
                continue
        else:
            target_n = nth
        seen = [0]

        pexc = forced_cls or FAULT_CLASSES[(len(name) + target_n) % len(FAULT_CLASSES)]

        def failing(*a, **k):
            seen[0] += 1
            if seen[0] == target_n:
                raise pexc("injected inside %s" % name)
            return real(*a, **k)

        tg.reset()
        setattr(mod, attr, failing)
        try:
            o = boundary.call(lib, tg.invoke)
        except (KeyboardInterrupt, SystemExit, MemoryError) as e:
            o = boundary.Outcome()
            o.kind, o.exc, o.cls, o.family, o.msg = "raise", e, type(e).__name__, type(e).__name__, str(e)
        finally:
            setattr(mod, attr, real)
        if seen[0] < target_n:
            continue
        rec.case("%s|primitive|%s" % (tg.kind, name))
        rec.count("primitive_faults_delivered")
        after = tg.content()
        if not o.accepted and after != tg.original:
            rec.violation("atomicity/%s/file-changed-after-primitive-failure" % tg.kind,
                          "%s failed, the call raised %s, but the file changed (%d -> %d bytes)" % (name, o.cls, len(tg.original), len(after or b"")),
                          dict(case, site=name))
        if o.accepted and tg.kind.endswith(":cli") and o.value not in (0, None):
            if after != tg.original:
                rec.violation("atomicity/%s/file-changed-after-primitive-failure" % tg.kind,
                              "%s failed, the command reported status %r, but the file changed" % (name, o.value), dict(case, site=name))
        elif o.accepted and after != tg.original and not tg.expected_check(after):
            rec.violation("atomicity/%s/fault-swallowed-and-file-incomplete" % tg.kind, "%s failed but the call returned with an incomplete file" % name,
                          dict(case, site=name))


# ---------------------------------------------------------------------------------------
def repodata_target(lib, spec, rng, scratch, via_cli, big=False):
    gen = c11.gen_doc(rng)
    doc = gen["doc"]
    # 3-6 artifacts in quick, up to 40 in thorough "big" docs; always both sections for the quick docs
    def trim(sec, n):
        if sec in doc:
            doc[sec] = dict(list(doc[sec].items())[:n])
    if not big:
        if len(doc["packages"]) < 2:
            doc["packages"].update({"a-1.0-0.tar.bz2": {"name": "a"}, "b-1.0-0.tar.bz2": {"name": "b", "depends": ["a"]}})
        doc.setdefault("packages.conda", {})
        if not doc["packages.conda"]:
            doc["packages.conda"] = {"c-2.0-0.conda": {"name": "c"}}
        trim("packages", 4)
        trim("packages.conda", 2)
    key = gkeys.from_seed_hex(gen["seed"])
    path = os.path.join(scratch, rng.choice(vlib.fs_names(TARGET_NAMES)))
    original = json.dumps(doc).encode("utf-8")
    parsed = json.loads(original)
    expected = canonjson.canon(c11.expected_doc(parsed, key))
    n = len(parsed["packages"]) + len(parsed.get("packages.conda", {}))
    if via_cli:
        kp = os.path.join(scratch, "key.txt")
        with open(kp, "w") as f:
            f.write(key.seed.hex() + "\n")
        invoke = lambda: lib.cli.cli(["sign-artifacts", path, kp])  # noqa: E731
        kind = "repodata:cli"
    else:
        invoke = lambda: lib.signing.sign_all_in_repodata(path, key.seed.hex())  # noqa: E731
        kind = "repodata:api"
    return Target(lib, kind, path, original, lambda b: b == expected, invoke, n), {"artifacts": n, "bytes": len(original)}


def gpg_target(lib, spec, rng, scratch, via_cli, stub, home):
    R = lib.root_signing
    key = gkeys.key(4)
    md = gmd.root_md(rng.randint(1, 9), [gkeys.key(0), key], 1, [gkeys.key(1)], 1)
    env = gmd.envelope(md)
    # a pre-existing signature by another key: must survive
    gmd.sign_env(env, [gkeys.key(0)], True, rng)
    path = os.path.join(scratch, rng.choice(vlib.fs_names(["root.json", "1.root.json", "root.json.tmp", "root.tmp", "root.orig", "root", "r\u00f6\u00f6t.json"])))
    original = json.dumps(env).encode("utf-8") if rng.random() < 0.5 else canonjson.canon(env)
    data = canonjson.canon(md)
    if stub:
        ns, fpr = make_stub_gpg(lib, key)
        R.gpg_funcs = ns
        R.SSLIB_AVAILABLE = True
        q = key.hex
    else:
        fpr = list(gnupg.SHIPPED)[0]
        q = gnupg.SHIPPED[fpr]

    def expected_check(b):
        try:
            d = json.loads(b)
            e = d["signatures"][q]
            return (canonjson.canon(d) == b and d["signed"] == md and set(d["signatures"]) == set(env["signatures"]) | {q}
                    and all(d["signatures"][k] == v for k, v in env["signatures"].items())
                    and openpgp.verify(bytes.fromhex(q), data, bytes.fromhex(e["other_headers"]), bytes.fromhex(e["signature"])))
        except Exception:
            return False

    if via_cli:
        invoke = lambda: lib.cli.cli(["gpg-sign", fpr, path])  # noqa: E731
        kind = "gpg:cli" + (":stub" if stub else ":gnupg")
    else:
        invoke = lambda: R.sign_root_metadata_via_gpg(path, fpr)  # noqa: E731
        kind = "gpg:api" + (":stub" if stub else ":gnupg")
    return Target(lib, kind, path, original, expected_check, invoke, None), {"bytes": len(original)}


def run_repodata(spec, rec, lib):
    rng = random.Random(spec["seed"])
    for d in range(spec["docs"]):
        tg, info = repodata_target(lib, spec, rng, spec["scratch"], spec["target"] == "cli", spec.get("big"))
        enumerate_target(tg, rec, "doc%d" % d, max_events=None if not spec.get("big") else 4000)
        if d < 1:
            rec.sample({"target": tg.kind, "document": info, "per_document": rec.extra.get("per_document", [])[-1:]})


def run_gpg(spec, rec, lib):
    rng = random.Random(spec["seed"])
    R = lib.root_signing
    home = None
    if not spec.get("stub"):
        if not gnupg.gpg_available():
            rec.count("gnupg_skipped_no_binary")
            rec.case("gnupg-skipped", nontrivial=False)
            return
        if not getattr(R, "SSLIB_AVAILABLE", False):
            rec.inconclusive_because("GnuPG stand-in not picked up")
            return
        try:
            home = gnupg.GpgHome().__enter__()
        except Exception:  # noqa: BLE001 - environmental: skip the sub-workload
            rec.count("gnupg_unavailable")
            rec.case("gnupg-unavailable", nontrivial=False)
            return
    saved = (getattr(R, "gpg_funcs", None), R.SSLIB_AVAILABLE)
    try:
        for d in range(spec["docs"]):
            tg, info = gpg_target(lib, spec, rng, spec["scratch"], spec["target"] == "cli", spec.get("stub"), home)
            enumerate_target(tg, rec, "doc%d" % d)
            if d < 1:
                rec.sample({"target": tg.kind, "document": info, "per_document": rec.extra.get("per_document", [])[-1:]})
    finally:
        if spec.get("stub"):
            if saved[0] is not None:
                R.gpg_funcs = saved[0]
            R.SSLIB_AVAILABLE = saved[1]
        if home is not None:
            home.__exit__(None, None, None)


def _late_depth():
    """a nesting depth the JSON parser still reads but the (pure-Python, indenting) serializer cannot write"""
    for d in range(900, 1500, 50):
        raw = "[" * d + "]" * d
        try:
            v = json.loads(raw)
        except RecursionError:
            return None
        try:
            json.dumps(v, indent=2, sort_keys=True)
        except RecursionError:
            return d + 100 if d + 100 < 1450 else d
    return None


LATE_DEPTH = _late_depth() or 1


def run_natural(spec, rec, lib):
    """natural failures of the repodata path (API and CLI)"""
    rng = random.Random(spec["seed"])
    S = lib.signing
    key = gkeys.key(3)
    d = spec["scratch"]
    path = os.path.join(d, random.Random(spec["seed"]).choice(vlib.fs_names(TARGET_NAMES)))
    kp = os.path.join(d, "key.txt")
    good = {"info": {}, "packages": {"a-1-0.tar.bz2": {"name": "a"}, "b-1-0.tar.bz2": {"name": "b"}}, "packages.conda": {"c-1-0.conda": {"name": "c"}},
            "signatures": {"a-1-0.tar.bz2": {"ab" * 32: {"signature": "cd" * 64}}}}
    docs = {
        "not_json": b"{nope",
        "empty": b"",
        "toplevel_list": b"[1,2]",
        "toplevel_scalar": b"5",
        "no_packages": json.dumps({"info": {}}).encode(),
        "packages_list": json.dumps(dict(good, packages=[1, 2])).encode(),
        "packages_str": json.dumps(dict(good, packages="x")).encode(),
        "packages_null": json.dumps(dict(good, packages=None)).encode(),
        "conda_list": json.dumps({**good, "packages.conda": [1]}).encode(),
        "conda_scalar": json.dumps({**good, "packages.conda": 7}).encode(),
        "conda_null": json.dumps({**good, "packages.conda": None}).encode(),
        "invalid_utf8": b'{"packages": {"a": "\xff\xfe"}}',
        "nan_key_dup": b'{"packages": {"a": 1, "a": 2}, "packages": 5}',
        "deep": (b'{"packages": {"a": ' + b"[" * 2000 + b"]" * 2000 + b"}}"),
        # LATE natural failures: every artifact signs, only the serialisation of the whole result fails (a part of the document
        # that is never signed is nested deeper than the serializer can go, while the parser could still read it)
        "late_deep_extra_field": (b'{"packages": {"a-1-0.tar.bz2": {"name": "a"}}, "packages.conda": {"c-1-0.conda": {"name": "c"}}, "zzz-info": '
                                  + b"[" * LATE_DEPTH + b"]" * LATE_DEPTH + b"}"),
        "late_deep_first_field": (b'{"aaa-info": ' + b'{"k": ' * LATE_DEPTH + b"1" + b"}" * LATE_DEPTH + b', "packages": {"a-1-0.tar.bz2": {"name": "a"}}}'),
    }
    keys = {"good": key.seed.hex(), "not_hex": "zz" * 32, "short": key.seed.hex()[:-2], "upper": key.seed.hex().upper() if key.seed.hex().upper() != key.seed.hex() else "AB" * 32,
            "empty": "", "none": None, "bytes": key.seed, "int": 5}
    for dn, raw in docs.items():
        for mode in ("api", "cli"):
            with open(path, "wb") as f:
                f.write(raw)
            with open(kp, "w") as f:
                f.write(key.seed.hex())
            if mode == "api":
                o = boundary.call(lib, S.sign_all_in_repodata, path, key.seed.hex())
            else:
                o = boundary.call(lib, lib.cli.cli, ["sign-artifacts", path, kp])
            after = open(path, "rb").read()
            rec.case("natural|%s|doc:%s" % (mode, dn))
            rec.hist("natural_outcome", "%s:%s" % (dn, "return" if o.accepted else o.cls))
            case = {"kind": "natural", "mode": mode, "doc": dn}
            if not o.accepted and after != raw:
                rec.violation("atomicity/repodata:%s/file-changed-after-natural-failure/%s" % (mode, dn), "malformed input %s: call raised %s but the file changed" % (dn, o.cls), case)
            if o.accepted and mode == "api":
                rec.count("natural_unexpected_success:" + dn)
    raw = json.dumps(good).encode()
    for kn, kv in keys.items():
        if kn == "good":
            continue
        with open(path, "wb") as f:
            f.write(raw)
        o = boundary.call(lib, S.sign_all_in_repodata, path, kv)
        after = open(path, "rb").read()
        rec.case("natural|api|key:%s" % kn)
        if not o.accepted and after != raw:
            rec.violation("atomicity/repodata:api/file-changed-after-natural-failure/key-" + kn, "bad key %s: raised %s but the file changed" % (kn, o.cls), {"kind": "natural", "key": kn})
        if o.accepted:
            rec.violation("atomicity/repodata:api/bad-key-accepted/" + kn, "bad key %s accepted" % kn, {"kind": "natural", "key": kn})
    # CLI with bad key files
    for kn, kv in (("not_hex", "zz" * 32), ("empty", ""), ("short", "ab" * 31), ("missing", None)):
        with open(path, "wb") as f:
            f.write(raw)
        if kv is None:
            if os.path.exists(kp):
                os.remove(kp)
        else:
            with open(kp, "w") as f:
                f.write(kv)
        o = boundary.call(lib, lib.cli.cli, ["sign-artifacts", path, kp])
        after = open(path, "rb").read()
        rec.case("natural|cli|keyfile:%s" % kn)
        if after != raw:
            rec.violation("atomicity/repodata:cli/file-changed-with-bad-key-file/" + kn, "bad key file %s: file changed" % kn, {"kind": "natural", "keyfile": kn})
    # key files of several lines / several keys / a key followed by something else: whatever the command makes of them, a run
    # that REPORTS failure (exception or non-zero status) has left the file as it was
    k2 = gkeys.key(3)
    multi = {
        "valid_then_note": key.seed.hex() + "\n# rotated 2021-03\n",
        "valid_then_truncated": key.seed.hex() + "\n" + k2.seed.hex()[:40] + "\n",
        "valid_then_uppercase": key.seed.hex() + "\n" + k2.seed.hex().upper() + "\n",
        "valid_blank_then_junk": key.seed.hex() + "\n\nnot a key\n",
        "two_valid_then_junk": key.seed.hex() + "\n" + k2.seed.hex() + "\nzz\n",
        "junk_then_valid": "# key below\n" + key.seed.hex() + "\n",
        "valid_crlf_then_junk": key.seed.hex() + "\r\nxyz\r\n",
        "valid_then_comment_same_line": key.seed.hex() + "  # mine\n",
        "two_keys_concatenated": key.seed.hex() + k2.seed.hex(),
        "valid_then_nul": key.seed.hex() + "\x00",
    }
    for kn, kv in multi.items():
        with open(path, "wb") as f:
            f.write(raw)
        with open(kp, "w", newline="") as f:
            f.write(kv)
        o = boundary.call(lib, lib.cli.cli, ["sign-artifacts", path, kp])
        after = open(path, "rb").read()
        rec.case("natural|cli|keyfile:%s" % kn)
        reported = (not o.accepted) or (o.value not in (0, None))
        rec.hist("multi_line_key_file_outcome", "%s:%s" % (kn, "reported-failure" if reported else "completed"))
        if reported and after != raw:
            rec.violation("atomicity/repodata:cli/file-changed-with-bad-key-file/" + kn,
                          "key file %s: the command reported failure (%s) but the file changed" % (kn, o.brief() if not o.accepted else "status %r" % (o.value,)),
                          {"kind": "natural", "keyfile": kn})
    # unreadable / missing / directory target
    for tn in ("missing", "directory"):
        p2 = os.path.join(d, "t_" + tn)
        if tn == "directory":
            os.makedirs(p2, exist_ok=True)
        o = boundary.call(lib, S.sign_all_in_repodata, p2, key.seed.hex())
        rec.case("natural|api|target:%s" % tn)
        if o.accepted:
            rec.violation("atomicity/repodata:api/missing-target-accepted", "signing a %s target returned normally" % tn, {"kind": "natural"})
        if tn == "missing" and os.path.exists(p2):
            rec.violation("atomicity/repodata:api/failed-call-created-file", "failed call created the target", {"kind": "natural"})
    rec.sample({"natural_failures": sorted(docs) + ["key:" + k for k in keys if k != "good"]})


def run_natural_gpg(spec, rec, lib):
    R = lib.root_signing
    rng = random.Random(spec["seed"])
    d = spec["scratch"]
    path = os.path.join(d, "root.json")
    key = gkeys.key(4)
    md = gmd.root_md(3, [key], 1, [gkeys.key(1)], 1)
    good = json.dumps(gmd.envelope(md)).encode()
    saved = (getattr(R, "gpg_funcs", None), R.SSLIB_AVAILABLE)
    ns, fpr = make_stub_gpg(lib, key)

    def failing_sig(*a, **k):
        raise RuntimeError("gpg subprocess failed")

    def not_ed25519(keyid, homedir=None):
        # what the real back end returns for an OpenPGP key that GnuPG knows but that is not ed25519 (RSA): no "q"
        return {"type": "rsa", "method": "pgp+rsa-pkcsv1.5", "keyid": keyid, "keyval": {"private": "", "public": {"e": "010001", "n": "c3" * 256}}}

    scenarios = []
    for dn, raw in (("good", good), ("not_json", b"{nope"), ("not_envelope", b'{"a": 1}'), ("list", b"[]"), ("extra_field", json.dumps(dict(json.loads(good), extra=1)).encode()),
                    ("signatures_list", json.dumps({"signatures": [], "signed": md}).encode()),
                    ("late_deep_junk_entry", b'{"signatures": {"zz": ' + b"[" * LATE_DEPTH + b"]" * LATE_DEPTH + b'}, "signed": ' + json.dumps(md).encode() + b"}")):
        for fn, fp in (("good", fpr), ("short", "ab" * 19), ("upper", "AB" * 20), ("nonhex", "zz" * 20), ("int", 5)):
            for dep in ("stub", "no_sslib", "gpg_fails", "export_fails", "export_not_ed25519"):
                if dn == "good" and fn == "good" and dep == "stub":
                    continue
                scenarios.append((dn, raw, fn, fp, dep))
    try:
        for dn, raw, fn, fp, dep in scenarios:
            with open(path, "wb") as f:
                f.write(raw)
            if dep == "no_sslib":
                R.SSLIB_AVAILABLE = False
            else:
                R.SSLIB_AVAILABLE = True
                R.gpg_funcs = types.SimpleNamespace(
                    create_signature=failing_sig if dep == "gpg_fails" else ns.create_signature,
                    export_pubkey=failing_sig if dep == "export_fails" else (not_ed25519 if dep == "export_not_ed25519" else ns.export_pubkey))
            for mode in ("api", "cli"):
                if mode == "cli" and not isinstance(fp, str):
                    continue
                with open(path, "wb") as f:
                    f.write(raw)
                if mode == "api":
                    o = boundary.call(lib, R.sign_root_metadata_via_gpg, path, fp)
                else:
                    o = boundary.call(lib, lib.cli.cli, ["gpg-sign", fp, path])
                after = open(path, "rb").read()
                rec.case("natural-gpg|%s|%s|%s|%s" % (mode, dn, fn, dep))
                if not o.accepted and after != raw:
                    rec.violation("atomicity/gpg:%s/file-changed-after-natural-failure/%s-%s-%s" % (mode, dn, fn, dep),
                                  "doc=%s fingerprint=%s dependency=%s: raised %s but the file changed" % (dn, fn, dep, o.cls),
                                  {"kind": "natural_gpg", "doc": dn, "fp": fn, "dep": dep})
                if dep in ("no_sslib", "gpg_fails", "export_fails", "export_not_ed25519") and after != raw:
                    # a missing dependency / failing back end / key that is not an ed25519 key: signing cannot have happened
                    returned_ok = o.accepted and (mode == "api" or o.value in (0, None))
                    if returned_ok:
                        rec.violation("atomicity/gpg:%s/unusable-key-or-backend-did-not-fail-and-file-changed/%s" % (mode, dep),
                                      "doc=%s fingerprint=%s dependency=%s: the call reported success and rewrote the file although no "
                                      "signature by an ed25519 key can have been made" % (dn, fn, dep),
                                      {"kind": "natural_gpg", "doc": dn, "fp": fn, "dep": dep})
                rec.hist("natural_gpg_outcome", "return" if o.accepted else o.cls)
    finally:
        if saved[0] is not None:
            R.gpg_funcs = saved[0]
        R.SSLIB_AVAILABLE = saved[1]
    rec.sample({"natural_gpg_scenarios": len(scenarios)})


def run_shard(spec, rec, lib):
    {"repodata": run_repodata, "gpg": run_gpg, "natural": run_natural, "natural_gpg": run_natural_gpg}[spec["kind"]](spec, rec, lib)


def finish(merged, tier, seed):
    if merged.counters.get("injections_delivered", 0) == 0:
        merged.inconclusive_because("no fault injection was delivered")
    if not merged.hists.get("injection_phase", {}).get("between-open-and-write") and not merged.counters.get("multiple_write_opens"):
        # informational: single-write output phase has no call between open and write (that is the expected shape)
        merged.counters.setdefault("output_phases_without_intermediate_calls", 1)
    if merged.counters.get("documents_enumerated", 0) == 0:
        merged.inconclusive_because("no document was enumerated")
    nd = merged.counters.get("injections_not_delivered", 0) + merged.counters.get("injection_site_mismatch", 0)
    if nd > merged.counters.get("injections_delivered", 0) // 10:
        merged.inconclusive_because("%d injections were not delivered (trace not reproducible)" % nd)


def evidence_extra(merged):
    docs = []
    for _s, e in merged.extras:
        docs.extend(e.get("per_document", []))
    return {"per_document": docs[:40], "exhaustive": all(d["exhaustive"] for d in docs) if docs else False,
            "failpoints_enumerated": sum(d["injected"] for d in docs)}


def replay(case, rec, lib):
    print("C18 witnesses name the injection site; re-run the check to re-enumerate (the census is deterministic per seed)")
    import shutil
    import tempfile

    d = tempfile.mkdtemp(prefix="vf_c18_")
    try:
        run_repodata({"seed": 1, "docs": 1, "scratch": d, "target": "api"}, rec, lib)
        run_natural({"seed": 1, "scratch": d}, rec, lib)
    finally:
        shutil.rmtree(d, ignore_errors=True)
