"""C07 - canonical serialization: deterministic, order-independent, injective, frozen."""
import hashlib
import json
import os
import random
import re

from ..engines import noise
from ..gen import jsonvals, keys as gkeys
from ..monitors import boundary, probes
from ..refs import canonjson

RULE = (
    "seeded hostile JSON values (all of Unicode incl. lone surrogates, all floats incl. NaN/Infinity/subnormals, "
    "integers up to 4000 digits, nesting <= 100, near-collision families); per value: bytes == hand-written reference "
    "serializer, equal bytes for recursively shuffled insertion orders, parse(bytes) == value, serialize(parse(bytes)) == bytes, "
    "file written by write_metadata_to_file == same bytes; a global bytes->value map detects collisions; a fixed corpus is "
    "digested under a matrix of interpreter configurations. distinct = distinct output bytes; non-trivial = container or "
    "non-ASCII/float/escape-bearing scalar."
)
RULE_ADDENDUM = (
    'Additional: artifact records signed through the repodata path compared with the RFC 8032 signature over the reference bytes; several threads serialising one shared unsorted object; every kind of unrelated library activity (incl. an interactive session that displays a document with other layout settings) once per shard, then the same oracle again.'
)
RULE = RULE + " " + RULE_ADDENDUM
LIMITS = [
    "Python str holding an adjacent high+low surrogate pair as two code units is outside the parser-value domain (grey, skipped)",
    "integers above 4000 digits (the interpreter's own int->str limit is 4300) not generated",
    "injectivity is checked on the values generated, not proved",
]
ASSUMPTIONS = ["reference serializer vf/refs/canonjson.py is the published format (checked against shipped signed fixtures)"]

_PAIR = re.compile("[\ud800-\udbff][\udc00-\udfff]")

CONFIGS = [
    {"name": "default"},
    {"name": "hashseed1", "hashseed": "1"},
    {"name": "hashseed4242", "hashseed": "4242"},
    {"name": "hashseed-random", "hashseed": "random"},
    {"name": "LC_ALL=C", "env": {"LC_ALL": "C", "LANG": "C"}},
    {"name": "LC_ALL=C.utf8", "env": {"LC_ALL": "C.utf8"}},
    {"name": "LC_ALL=POSIX+utf8mode0", "env": {"LC_ALL": "POSIX", "PYTHONUTF8": "0", "PYTHONCOERCECLOCALE": "0"}},
    {"name": "bogus-locale", "env": {"LC_ALL": "xx_XX.bogus", "LANG": "xx_XX.bogus"}},
    {"name": "utf8mode1", "env": {"PYTHONUTF8": "1"}},
    {"name": "TZ=Kiritimati", "env": {"TZ": "Pacific/Kiritimati"}},
    {"name": "TZ=LA", "env": {"TZ": "America/Los_Angeles"}},
    {"name": "cwd=/", "cwd": "/"},
    {"name": "cwd=nonascii", "cwd": "@nonascii"},
    {"name": "-O", "pyargs": ["-O"]},
    {"name": "-I", "pyargs": ["-I"]},
    {"name": "ioenc-ascii", "env": {"PYTHONIOENCODING": "ascii"}, "stdout_encoding": "ascii"},
    {"name": "pre-decimal-locale", "preimport": ["decimal", "locale", "ssl", "unittest.mock"]},
    {"name": "pre-cli", "preimport": ["conda_content_trust.cli"]},
    {"name": "setlocale", "setlocale": True},
]


def plan(tier, seed):
    specs = []
    n = 30000 if tier == "quick" else 800000
    shards = 12 if tier == "quick" else 32
    for _ in range(shards):
        specs.append({"kind": "values", "count": n // shards})
    specs.append({"kind": "families"})
    specs.append({"kind": "big", "count": 2 if tier == "quick" else 12})
    specs.append({"kind": "signprobe", "count": 40 if tier == "quick" else 600})
    specs.append({"kind": "records", "count": 30 if tier == "quick" else 600})
    for T in ([4] if tier == "quick" else [2, 4, 8, 16]):
        specs.append({"kind": "shared_threads", "threads": T, "count": 12 if tier == "quick" else 80})
    cfgs = CONFIGS[:8] if tier == "quick" else CONFIGS
    for c in cfgs:
        s = {"kind": "corpus", "config": c["name"], "seed": seed, "seed_fixed": True, "count": 500 if tier == "quick" else 3000}
        for k in ("hashseed", "env", "cwd", "pyargs", "stdout_encoding", "preimport", "setlocale"):
            if k in c:
                s[k] = c[k]
        specs.append(s)
    return specs


def has_pair(v):
    if type(v) is str:
        return _PAIR.search(v) is not None
    if type(v) is list:
        return any(has_pair(x) for x in v)
    if type(v) is dict:
        return any(has_pair(k) or has_pair(x) for k, x in v.items())
    return False


def nontrivial(v):
    if type(v) in (dict, list):
        return len(v) > 0
    if type(v) is float:
        return True
    if type(v) is str:
        return any(not (0x20 <= ord(c) < 0x7F) or c in '"\\' for c in v)
    return False


def check_value(v, rec, lib, rng, table, tmpdir=None, case_kind="value"):
    """all per-value invariants; table: bytes-hash -> value fingerprint (this shard)"""
    if has_pair(v):
        rec.count("grey_adjacent_surrogate_pair")
        return None
    C = lib.common
    case = {"kind": case_kind, "value": v}
    out = boundary.call(lib, C.canonserialize, v)
    if not out.accepted:
        rec.case(None, nontrivial=False)
        rec.violation(
            boundary.mechanism("serialize-raises", "canonserialize", "bytes", out),
            "canonserialize raised on a JSON value: %s" % (out.msg or "")[:200],
            case,
        )
        return None
    b = out.value
    ref = canonjson.canon(v)
    rec.case(hashlib.sha256(ref).digest(), nontrivial=nontrivial(v))
    if type(b) is not bytes or b != ref:
        rec.violation(
            "frozen-format/canonserialize/bytes-differ-from-reference",
            "library bytes differ from the published format: lib=%r ref=%r" % (bytes(b)[:120] if isinstance(b, (bytes, bytearray)) else type(b), ref[:120]),
            case,
        )
        return b
    # order independence
    sv = jsonvals.shuffled(v, rng)
    b2 = boundary.call(lib, C.canonserialize, sv)
    rec.count("order_pairs")
    if not b2.accepted or b2.value != b:
        rec.violation(
            "order-dependence/canonserialize/insertion-order-changes-bytes",
            "same JSON value, other insertion order, different bytes",
            case,
        )
    # parse round trip + fix point
    try:
        back = json.loads(b.decode("utf-8"))
    except Exception as e:  # noqa: BLE001
        back = e
    rec.count("roundtrips")
    vfp = boundary.value_fingerprint(v)
    if isinstance(back, Exception) or boundary.value_fingerprint(back) != vfp:
        rec.violation(
            "roundtrip/canonserialize/parse-does-not-give-value-back",
            "json.loads(canonserialize(v)) != v (%r)" % (back if isinstance(back, Exception) else "value differs"),
            case,
        )
    else:
        b3 = boundary.call(lib, C.canonserialize, back)
        if not b3.accepted or b3.value != b:
            rec.violation(
                "fixpoint/canonserialize/serialize-parse-serialize-differs",
                "canonserialize(json.loads(bytes)) != bytes",
                case,
            )
    # injectivity (within this shard; across shards in finish())
    hb = hashlib.blake2b(b, digest_size=8).hexdigest()
    prev = table.get(hb)
    if prev is not None and prev != vfp:
        rec.violation(
            "injectivity/canonserialize/two-values-one-byte-string",
            "two different JSON values share canonical bytes %r" % b[:120],
            case,
        )
    table[hb] = vfp
    # file bytes
    if tmpdir is not None:
        fn = os.path.join(tmpdir, "md.json")
        o = boundary.call(lib, C.write_metadata_to_file, v, fn)
        rec.count("file_writes")
        try:
            with open(fn, "rb") as f:
                fb = f.read()
        except OSError:
            fb = None
        if not o.accepted or fb != ref:
            rec.violation(
                "file-bytes/write_metadata_to_file/file-differs-from-canonical-bytes",
                "file written is not the canonical serialization (%s)" % (o.brief()),
                case,
            )
    return b


def poison(lib, rng, rec):
    """a serialisation that FAILS (values outside the domain: no claim on them) - the NEXT serialisation of a
    domain value must be unaffected by it"""
    kind = rng.choice(["huge_int", "too_deep", "circular", "unserializable_late", "mixed_keys_late", "huge_int_late"])
    if kind == "huge_int":
        v = {"a": [1, 2, {"n": 10**5000}]}
    elif kind == "huge_int_late":
        v = [{"k%d" % i: i for i in range(50)}, "x" * 100, 10**5000]
    elif kind == "too_deep":
        v = jsonvals.deep(5000, rng.choice(["list", "dict"]))
    elif kind == "circular":
        v = {"a": [1, 2]}
        v["a"].append(v)
    elif kind == "unserializable_late":
        v = {"a": list(range(30)), "z": object()}
    else:
        v = {"ok": {"x": 1}, "zz": {1: "a", "b": 2}}
    o = boundary.call(lib, lib.common.canonserialize, v)
    rec.count("poison_calls")
    rec.hist("poison", "%s:%s" % (kind, "return" if o.accepted else o.cls))


def run_values(spec, rec, lib):
    rng = random.Random(spec["seed"])
    table = {}
    tmp = spec["scratch"]
    for i in range(spec["count"]):
        if i == spec["count"] // 3:
            # every kind of unrelated library activity once (interactive session that displays a document with other layout
            # settings, odd files, failing builders ...): the serialization afterwards is still the frozen format
            ndir = os.path.join(tmp, "provocations")
            os.makedirs(ndir, exist_ok=True)
            noise.provoke(lib, random.Random(spec["seed"]), ndir)
            rec.count("provocation_rounds")
        if i % 7 == 3:
            poison(lib, rng, rec)
        if i % 40 == 11:
            noise.tick(lib, rng, spec.get("scratch"))
        r = rng.random()
        if r < 0.5:
            v = jsonvals.rand_value(rng, 0, 4, 4)
        elif r < 0.8:
            v = jsonvals.rand_scalar(rng)
        elif r < 0.9:
            v = jsonvals.rand_value(rng, 0, 6, 3)
        else:
            v = jsonvals.deep(rng.randint(1, 100), rng.choice(["list", "dict"]), jsonvals.rand_scalar(rng))
        check_value(v, rec, lib, rng, table, tmp if i % 10 == 0 else None)
        if i < 3:
            rec.sample({"value": v})
    rec.extra["table"] = table


def run_families(spec, rec, lib):
    rng = random.Random(spec["seed"])
    table = {}
    tmp = spec.get("scratch")
    for fam in jsonvals.NEAR_COLLISION_FAMILIES:
        # written one after the other to the SAME path: 1 / 1.0 / true ... are ==-equal in Python
        for v in list(fam) + list(reversed(fam)):
            check_value(v, rec, lib, rng, table, tmp, "family")
        for v in list(fam) + list(reversed(fam)):
            check_value({"k": [v]}, rec, lib, rng, table, tmp, "family")
        # also nested occurrences
        for v in fam:
            check_value({"k": v}, rec, lib, rng, table, None, "family")
            check_value([v], rec, lib, rng, table, None, "family")
    for s in jsonvals.EDGE_STRINGS:
        check_value(s, rec, lib, rng, table, None, "family")
        check_value({s: s}, rec, lib, rng, table, None, "family")
    for f in jsonvals.EDGE_FLOATS:
        check_value(f, rec, lib, rng, table, None, "family")
    for n in jsonvals.EDGE_INTS:
        check_value(n, rec, lib, rng, table, None, "family")
        check_value(-n, rec, lib, rng, table, None, "family")
    # every code point class boundary
    for cp in list(range(0, 0x100)) + [0x7FF, 0x800, 0xD7FF, 0xD800, 0xDBFF, 0xDC00, 0xDFFF, 0xE000, 0xFFFF, 0x10000, 0x10FFFF]:
        check_value(chr(cp), rec, lib, rng, table, None, "family")
    rec.sample({"families": len(jsonvals.NEAR_COLLISION_FAMILIES), "example": jsonvals.NEAR_COLLISION_FAMILIES[3]})
    rec.extra["table"] = table


def run_big(spec, rec, lib):
    rng = random.Random(spec["seed"])
    table = {}
    for i in range(spec["count"]):
        # ~1 MB document: many artifacts
        doc = {"packages": {}}
        while True:
            name = jsonvals.rand_string(rng, 20) + str(len(doc["packages"]))
            doc["packages"][name] = jsonvals.rand_value(rng, 0, 3, 5)
            if len(doc["packages"]) % 200 == 0 and len(canonjson.canon(doc)) > 1_000_000:
                break
        check_value(doc, rec, lib, rng, table, spec["scratch"], "big")
        rec.count("big_documents")
    n = 10**3999
    check_value(n, rec, lib, rng, table, None, "big")
    rec.extra["table"] = table


def run_signprobe(spec, rec, lib):
    """the bytes handed to the signing and verifying primitives are the reference bytes"""
    rng = random.Random(spec["seed"])
    sp = probes.SignProbe(lib)
    vp = probes.PrimitiveProbe(lib)
    S, A, C = lib.signing, lib.authentication, lib.common
    for i in range(spec["count"]):
        v = jsonvals.rand_payload(rng)
        if has_pair(v):
            continue
        k = gkeys.key(rng.randrange(6))
        ref = canonjson.canon(v)
        env = S.wrap_as_signable(v)
        S.sign_signable(env, sp.wrap(C.PrivateKey.from_bytes(k.seed)))
        with vp:
            o = boundary.call(lib, A.verify_signable, env, [k.hex], 1)
        rec.case("signprobe|" + hashlib.sha256(ref).hexdigest())
        case = {"kind": "signprobe", "value": v, "key": k.seed.hex()}
        rec.count("probe_sign_events", len(sp.events))
        rec.count("probe_verify_events", len(vp.events))
        # the canonical bytes must reach the primitives; further primitive calls over other data are only tallied
        if sp.events and not any(ev["data"] == ref for ev in sp.events):
            rec.violation("primitive-probe/sign_signable/signed-bytes-differ-from-reference",
                          "signer handed other bytes to the primitive", case)
        if vp.events and o.accepted and not any(ev["data"] == ref for ev in vp.events):
            rec.violation("primitive-probe/verify_signable/verified-bytes-differ-from-reference",
                          "verifier handed other bytes to the primitive", case)
        if any(ev["data"] != ref for ev in list(sp.events) + list(vp.events)):
            rec.count("hint_probe_extra_primitive_events_over_other_data")
        sp.events.clear()
        vp.events.clear()
    if sp.total == 0:
        rec.count("probe_unreached")


def run_corpus(spec, rec, lib):
    """fixed corpus (same in every configuration) -> digest of all outputs"""
    if spec.get("setlocale"):
        import locale

        for loc in ("C.utf8", "C", "POSIX"):
            try:
                locale.setlocale(locale.LC_ALL, loc)
                break
            except locale.Error:
                continue
    rng = random.Random(spec["seed"] * 7919 + 13)
    h = hashlib.sha256()
    table = {}
    bad = 0
    for i in range(spec["count"]):
        v = jsonvals.rand_value(rng, 0, 4, 4)
        # build dicts via set iteration too: insertion order then depends on the hash seed
        if type(v) is dict and len(v) > 1:
            v = {k: v[k] for k in set(v)}
        if has_pair(v):
            continue
        o = boundary.call(lib, lib.common.canonserialize, v)
        rec.case("corpus|%s|%d" % (spec["config"], i), nontrivial=nontrivial(v))
        if not o.accepted:
            bad += 1
            h.update(b"<raise %s>" % (o.cls or "").encode())
            continue
        h.update(o.value)
        if o.value != canonjson.canon(v):
            rec.violation("frozen-format/canonserialize/bytes-differ-from-reference[config]",
                          "config %s: bytes differ from the published format" % spec["config"],
                          {"kind": "value", "value": v, "config": spec["config"]})
    rec.extra["corpus_digest"] = h.hexdigest()
    rec.extra["config"] = spec["config"]
    rec.hist("config", spec["config"])
    import sys

    rec.extra["env"] = {
        "hashseed": os.environ.get("PYTHONHASHSEED"),
        "cwd": os.getcwd(),
        "fsenc": sys.getfilesystemencoding(),
        "flags": [sys.flags.optimize, sys.flags.isolated, sys.flags.utf8_mode],
    }


def run_shared_threads(spec, rec, lib):
    """the serialization is a function of the VALUE: several threads serialising the same (shared) object at the same
    time, and the same object afterwards, all obtain the reference bytes; the object's keys arrive in random
    (unsorted) insertion order, as a caller-built document would"""
    import threading

    from ..monitors import sysmon

    rng = random.Random(spec["seed"])
    C = lib.common
    T = spec["threads"]
    for i in range(spec["count"]):
        v = jsonvals.shuffled({"packages": {"%s-%d" % (jsonvals.rand_string(rng, 6), j): jsonvals.rand_value(rng, 0, 3, 4)
                                            for j in range(rng.randint(20, 120))},
                               "info": jsonvals.rand_value(rng, 0, 3, 4), "z": [{"b": 1, "a": 2}], "a": None}, rng)
        if has_pair(v):
            continue
        try:
            ref = canonjson.canon(v)
        except canonjson.Unsupported:
            continue
        before = boundary.fingerprint(v)
        results = [[] for _ in range(T)]
        start = threading.Barrier(T)

        def worker(t):
            start.wait()
            for _ in range(3):
                results[t].append(boundary.call(lib, C.canonserialize, v))

        inj = sysmon.YieldInjector(lib.pkg_dir, random.Random(spec["seed"] + i), prob=0.2)
        with inj:
            ths = [threading.Thread(target=worker, args=(t,)) for t in range(T)]
            for th in ths:
                th.start()
            for th in ths:
                th.join(300)
        if any(th.is_alive() for th in ths):
            rec.inconclusive_because("shared-object thread workload did not finish")
            return
        rec.count("shared_object_concurrent_serializations", 3 * T)
        rec.count("context_switches_inside_library", inj.switches)
        case = {"kind": "value", "value": v, "threads": T}
        rec.case("shared|%d|%d" % (T, i))
        outs = [o for r in results for o in r] + [boundary.call(lib, C.canonserialize, v)]
        for o in outs:
            if not o.accepted:
                rec.violation(boundary.mechanism("not-a-function-of-the-value", "canonserialize[shared object, threads]", "reference bytes", o),
                              "serialising an ordinary document raised %s while other threads serialised the same object" % o.cls, case)
                break
            if o.value != ref:
                rec.violation("not-a-function-of-the-value/canonserialize[shared object, threads]/bytes-differ",
                              "a concurrent serialisation of the same object returned %d bytes, the reference has %d" % (len(o.value), len(ref)), case)
                break
        if boundary.fingerprint(v) != before:
            rec.count("shared_object_changed_by_serialising")


def run_records(spec, rec, lib):
    """the bytes that are SIGNED are the frozen format on every signing path: artifact records signed through the repodata
    path (flat records of every scalar type, nested ones, empty ones) carry the RFC 8032 signature over the reference bytes"""
    from ..refs import ed25519

    rng = random.Random(spec["seed"])
    S = lib.signing
    fn = os.path.join(spec["scratch"], "records.json")
    k = gkeys.key(rng.randrange(6))
    for i in range(spec["count"]):
        recs = {}
        for j in range(rng.randint(2, 8)):
            r = rng.random()
            if r < 0.5:
                # flat record: string keys, scalar / list-of-string members (the everyday shape of repodata)
                m = {}
                for _ in range(rng.randint(0, 7)):
                    m[rng.choice(["name", "version", "build", "noarch", "size", "timestamp", "track_features", "license", "x", "é"])] = rng.choice(
                        [True, False, None, 0, 1, -1, 2**31, 2**63, 10**20, 1.0, 0.5, 1e22, "", "a", "true", "1", "é", "a, b", ["x"], [], ["a >=1, <2", "b"]])
                recs["flat-%d-%d.tar.bz2" % (i, j)] = m
            elif r < 0.8:
                recs["rand-%d-%d.conda" % (i, j)] = jsonvals.rand_value(rng, 0, 3, 4)
            else:
                recs["scalar-%d-%d.tar.bz2" % (i, j)] = jsonvals.rand_scalar(rng)
        if has_pair(recs):
            continue
        doc = {"packages": {n: v for n, v in recs.items() if not n.endswith(".conda")}, "packages.conda": {n: v for n, v in recs.items() if n.endswith(".conda")}}
        with open(fn, "w") as f:
            json.dump(doc, f)
        parsed = json.load(open(fn))
        o = boundary.call(lib, S.sign_all_in_repodata, fn, k.seed.hex())
        rec.case("records|%d" % i)
        case = {"kind": "records", "doc": doc, "key": k.seed.hex()}
        if not o.accepted:
            rec.count("records_signing_raised:%s" % o.cls)
            continue
        got = json.load(open(fn)).get("signatures", {})
        for sec in ("packages", "packages.conda"):
            for name, md in parsed[sec].items():
                try:
                    ref = canonjson.canon(md)
                except canonjson.Unsupported:
                    continue
                rec.count("record_signatures_compared")
                want = ed25519.sign(k.seed, ref).hex()
                have = (got.get(name) or {}).get(k.hex, {}).get("signature") if isinstance(got.get(name), dict) else None
                if have != want:
                    rec.violation("frozen-format/sign_all_in_repodata/record-signed-over-other-bytes",
                                  "the signature filed for an artifact record is not the RFC 8032 signature over the record's canonical bytes "
                                  "(record: %s)" % json.dumps(md)[:120], case)
                    return


def run_shard(spec, rec, lib):
    if spec.get("kind") == "records":
        return run_records(spec, rec, lib)
    if spec.get("kind") == "shared_threads":
        return run_shared_threads(spec, rec, lib)
    if spec.get("cwd") == "@nonascii":
        d = os.path.join(spec["scratch"], "dé中")
        os.makedirs(d, exist_ok=True)
        os.chdir(d)
    {
        "values": run_values,
        "families": run_families,
        "big": run_big,
        "signprobe": run_signprobe,
        "corpus": run_corpus,
    }[spec["kind"]](spec, rec, lib)


def finish(merged, tier, seed):
    # cross-shard injectivity
    glob = {}
    digests = {}
    for spec, extra in merged.extras:
        for hb, vfp in extra.get("table", {}).items():
            p = glob.get(hb)
            if p is not None and p != vfp:
                merged.violation(
                    "injectivity/canonserialize/two-values-one-byte-string",
                    "cross-shard collision on output hash %s" % hb,
                    None,
                )
            glob[hb] = vfp
        if "corpus_digest" in extra:
            digests[extra["config"]] = extra["corpus_digest"]
    merged.counters["injectivity_table_size"] = len(glob)
    merged.counters["configurations_run"] = len(digests)
    if digests:
        base = digests.get("default")
        for name, d in sorted(digests.items()):
            if d != base:
                merged.violation(
                    "config-dependence/canonserialize/corpus-digest-differs/" + re.sub(r"[^A-Za-z0-9=_.-]", "_", name),
                    "configuration %s yields other bytes for the fixed corpus than the default configuration" % name,
                    {"kind": "config", "config": name},
                )
    else:
        merged.inconclusive_because("no configuration shard reported")
    if merged.counters.get("probe_sign_events", 0) == 0:
        merged.counters["probe_unreached"] = merged.counters.get("probe_unreached", 0) + 1


def evidence_extra(merged):
    return {"configurations": sorted(e.get("config") for _s, e in merged.extras if "config" in e)}


def replay(case, rec, lib):
    rng = random.Random(1)
    if case is None:
        return
    if case.get("kind") in ("value", "family", "big"):
        check_value(case["value"], rec, lib, rng, {}, None)
    elif case.get("kind") == "signprobe":
        run_signprobe({"seed": 1, "count": 50}, rec, lib)
    elif case.get("kind") == "config":
        print("re-run the check: configuration differentials need the whole corpus")
