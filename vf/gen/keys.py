"""Key universe: keys are 32-byte seeds; public values come from the reference
implementation, never from the library."""
import hashlib

from ..refs import ed25519

EDGE_SEEDS = [
    bytes(32),
    b"\xff" * 32,
    bytes.fromhex("9d61b19deffd5a60ba844af492ec2cc44449c5697b326919703bac031cae7f60"),
    bytes.fromhex("4ccd089b28ff96da9db6c346ec114e0f5b8a319f35aba624da8cf6ed4fb8a6fb"),
    bytes(range(32)),
    b"\x80" + bytes(31),
]


class Key:
    __slots__ = ("seed", "pub", "hex", "name")

    def __init__(self, seed, name=None):
        self.seed = seed
        self.pub = ed25519.public(seed)
        self.hex = self.pub.hex()
        self.name = name or self.hex[:6]

    def sign(self, msg):
        return ed25519.sign(self.seed, msg)


_POOL = {}


def key(i):
    """deterministic key #i of the universe (same in every process)"""
    if i not in _POOL:
        if i < len(EDGE_SEEDS):
            seed = EDGE_SEEDS[i]
        else:
            seed = hashlib.sha256(b"vf-key-%d" % i).digest()
        _POOL[i] = Key(seed, "k%d" % i)
    return _POOL[i]


def from_seed_hex(h):
    return Key(bytes.fromhex(h))


def rand_key(rng):
    return Key(rng.getrandbits(256).to_bytes(32, "little"))


def junk_hexkey(rng):
    """64 lowercase hex chars that are (almost surely) nobody's key"""
    return "%064x" % rng.getrandbits(256)


def respellings(hexkey, rng=None):
    """alternative spellings of a key string that must never be treated as the key"""
    out = [
        hexkey.upper(),
        hexkey[:10].upper() + hexkey[10:],
        "0x" + hexkey,
        " " + hexkey,
        hexkey + " ",
        hexkey + "\n",
        "\t" + hexkey,
        hexkey[:32] + " " + hexkey[32:],
        hexkey + "00",
        hexkey[:-2],
        hexkey.translate({ord(str(d)): 0x0660 + d for d in range(10)}),  # arabic-indic digits
        hexkey.translate({ord(str(d)): 0xFF10 + d for d in range(10)}),  # full-width digits
        hexkey.replace("a", "ａ").replace("b", "ｂ"),  # full-width letters
        "+" + hexkey[1:],
        hexkey[:-1] + "_",
        hexkey + "\x00",
        # abbreviations (key-id style): leading / trailing parts of the key
        hexkey[:16], hexkey[:32], hexkey[:40], hexkey[:62], hexkey[:63], hexkey[-16:], hexkey[-40:], hexkey[:8],
    ]
    return [s for s in out if s != hexkey]
