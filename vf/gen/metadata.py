"""Hand-built delegating metadata and signed envelopes (no library builder involved)."""
from ..refs import canonjson, ed25519, openpgp
from . import entries as gentries


def delegating(md_type, delegations, version=1, timestamp="2021-01-01T00:00:00Z",
               expiration="2031-01-01T00:00:00Z", spec="0.6.0", extra=None):
    d = {
        "type": md_type,
        "metadata_spec_version": spec,
        "delegations": delegations,
        "expiration": expiration,
    }
    if version is not None:
        d["version"] = version
    if timestamp is not None:
        d["timestamp"] = timestamp
    if extra:
        d.update(extra)
    return d


def delegation(keys, threshold):
    return {"pubkeys": [k.hex for k in keys], "threshold": threshold}


def envelope(signed, sigs=None):
    return {"signatures": dict(sigs or {}), "signed": signed}


def sign_env(env, signers, gpg, rng, state="valid"):
    """adds entries by `signers` (Key objects) in the given state; returns env"""
    data = canonjson.canon(env["signed"])
    for k in signers:
        env["signatures"][k.hex] = gentries.make(state, gpg, k, data, rng, env["signed"])
    return env


def root_md(version, root_keys, root_t, km_keys=(), km_t=1, extra_roles=None, **kw):
    dels = {"root": delegation(root_keys, root_t), "key_mgr": delegation(km_keys, km_t)}
    if extra_roles:
        dels.update(extra_roles)
    return delegating("root", dels, version=version, **kw)
