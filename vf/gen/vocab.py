"""Vocabulary learned from the library under test.

The harness cannot know which member names, file suffixes or option names a version of the library gives meaning to; but
the library's own code objects spell them out.  learn() compiles the package's source files and collects the string
constants of every code object: identifier-like ones become candidate MEMBER NAMES for documents, signature entries and
repodata records (offered as *extra* members, which the stated rules say nothing about, so an accepting expectation is
withheld and a rejecting one is kept), dotted short ones become candidate FILE SUFFIXES for neighbours of files the
library reads and writes.  This only widens workloads - no verdict is derived from the vocabulary.
"""
import os
import re

_NAME = re.compile(r"\A[A-Za-z_][A-Za-z0-9_\-]{1,31}\Z")
_SUFFIX = re.compile(r"\A\.[A-Za-z0-9_\-]{1,8}\Z")
# names the documented schema already gives a meaning to at some level (never offered as "extra")
SCHEMA_NAMES = {"signatures", "signed", "delegations", "pubkeys", "threshold", "type", "version", "timestamp", "expiration",
                "metadata_spec_version", "signature", "other_headers", "see_also", "packages", "packages.conda"}
_cache = {}


def _walk(code, out):
    for c in code.co_consts:
        if isinstance(c, str):
            out.add(c)
        elif isinstance(c, (tuple, frozenset)):
            for x in c:
                if isinstance(x, str):
                    out.add(x)
        elif hasattr(c, "co_consts"):
            _walk(c, out)


def learn(pkg_dir):
    """-> {"names": [...], "suffixes": [...]} (sorted, deterministic)"""
    pkg_dir = str(pkg_dir)
    if pkg_dir in _cache:
        return _cache[pkg_dir]
    consts = set()
    for fn in sorted(os.listdir(pkg_dir)):
        if not fn.endswith(".py"):
            continue
        try:
            with open(os.path.join(pkg_dir, fn), encoding="utf-8") as f:
                _walk(compile(f.read(), fn, "exec", dont_inherit=True), consts)
        except (SyntaxError, OSError, ValueError):
            continue
    names = sorted(c for c in consts if _NAME.match(c) and c not in SCHEMA_NAMES)
    # words inside longer constants' first token are not taken: only whole constants
    suffixes = sorted(c for c in consts if _SUFFIX.match(c))
    for s in (".sig", ".asc", ".bak", ".tmp", ".orig", "~", ".lock", ".json", ".new", ".old"):
        if s not in suffixes:
            suffixes.append(s)
    _cache[pkg_dir] = {"names": names[:400], "suffixes": suffixes[:40]}
    return _cache[pkg_dir]


def extra_members(pkg_dir, value):
    """every learned name at once, each bound to (a copy of) `value`"""
    import copy

    return {n: copy.deepcopy(value) for n in learn(pkg_dir)["names"]}
