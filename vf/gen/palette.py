"""Value palettes (in the case language) used for argument-position sweeps and
single-path mutations (C13, C14, C16)."""

HK = "ab" * 32
HK2 = "cd" * 32
SIG = "ef" * 64
DATE = "2030-01-01T00:00:00Z"

JSON_PALETTE = [
    None, True, False, 0, 1, -1, 2, 3, 1.0, 2.0, 1.5, 0.0, -0.0, 1e308, 5e-324, 2**53, 2**64, -(2**64), 10**30,
    {"$py": "bigint", "digits": 400}, {"$py": "bigint", "digits": 4200},
    {"$py": "float", "v": "inf"}, {"$py": "float", "v": "-inf"}, {"$py": "float", "v": "nan"},
    "", "a", "root", "key_mgr", "pkg_mgr", "1", "0", "0.6.0", "true", "null", "\x00", "\ud800", "é", "\U0001f600",
    DATE, "2030-01-01T00:00:00", "2030-13-01T00:00:00Z", "2030-02-30T00:00:00Z", "2030-1-1T0:0:0Z", "2030-01-01t00:00:00z",
    "2030-01-01T00:00:60Z", "٢٠٣٠-٠١-٠١T٠٠:٠٠:٠٠Z", " 2030-01-01T00:00:00Z", "2030-01-01T00:00:00Z\n", "0000-01-01T00:00:00Z",
    "9999-12-31T23:59:59Z", "10000-01-01T00:00:00Z",
    "2031-07-13T05:46:+5Z", "2031-07-13T 5:46:45Z", "2031-07-13T05: 6:45Z", "2031-07-13T05:46:5\nZ", "2_31-07-13T05:46:45Z", "2031-07-13T05:46:4_Z",
    "2031-07-13T05:46:\t5Z", "2031- 7-13T05:46:45Z", "2031-07- 3T05:46:45Z", "+031-07-13T05:46:45Z", "2031-07-13T-5:46:45Z", "2031-07-13T05:46:45z",
    "2031-07-13t05:46:45Z", "2031-07-13T05:46:45\u200bZ", "2031/07/13T05:46:45Z", "2031-07-13T05.46.45Z", "2031-07-13T24:00:00Z", "2031-07-13T05:60:00Z",
    # other ISO-8601 spellings of a UTC instant (none is the documented YYYY-MM-DDTHH:MM:SSZ form), several exactly 20 characters long
    "2026-W01-4T00:00:00Z", "2026-01-01_00:00:00Z", "2026-01-01 00:00:00Z", "2026-01-01T00:00-05Z", "20260101T000000.000Z", "2026-001T00:00:00.0Z",
    "2026-01-01T00:00:00+00:00", "2026-01-01T00:00:00+0000", "2026-01-01T00:00:00-00:00", "2026-01-01T00:00:00.000000Z", "2026-01-01T00:00Z",
    "2026-01-01T00:00:00,0Z", "2026-01-01T00:00:00 Z", "2026-01-01T00:00:00ZZ", "2026-01-01T00:00:00UTC",
    # spellings that other date parsers / formatters read or write and that round-trip through them (fractions of every width, an offset
    # in front of the Z, sub-minute offsets, week and ordinal dates)
    "2031-07-13T05:46:45.123456Z", "2031-07-13T05:46:45.000001Z", "2031-07-13T05:46:45.123Z", "2031-07-13T05:46:45.1Z", "2031-07-13T05:46:45.999999Z",
    "2031-07-13T05:46:45+00:00Z", "2031-07-13T05:46:45-05:00Z", "2031-07-13T05:46:45+05:30Z", "2031-07-13T05:46:45+00:00:30Z",
    "2031-07-13T05:46:45.123456+00:00Z", "2031-07-13T05:46:45+14:00Z", "2031-W28-7T05:46:45Z", "2031-194T05:46:45Z", "20310713T054645Z",
    "2031-07-13T05:46Z", "2031-07-13T05Z", "2031-07-13Z", "2031-07-13T05:46:45.000000Z",
    # integers at machine-word boundaries
    2**31 - 1, 2**31, 2**32, 2**63 - 1, 2**63, 2**64 - 1, 10**19, -(2**63),
    # key lists whose entries' length errors cancel out
    [HK[:-1], HK2 + "a"], ["", HK + HK2], [HK[:32], HK2[:32], HK, HK + HK2],
    {"pubkeys": [HK[:-1], HK2 + "a"], "threshold": 1}, {"pubkeys": [HK[:-2], HK2 + "ab"], "threshold": 2},
    HK, HK.upper(), "Ab" + HK[2:], HK[:-1] + "B", "eF" * 64, "ef" * 63 + "eF", "04aB", "AB", HK[:-1], HK + "a", HK[:-2], " " + HK, HK + "\n", "0x" + HK[2:], SIG, SIG[:-2], "ab", "abc", "zz",
    [], {}, [HK], [HK, HK], [HK, HK2], [HK.upper()], [1], [None], [[]], [{}], {"a": 1}, {"": None},
    {"pubkeys": [], "threshold": 1}, {"pubkeys": [HK], "threshold": 1}, {"pubkeys": [HK], "threshold": 0},
    {"pubkeys": [HK, HK], "threshold": 1}, {"pubkeys": [HK], "threshold": 1, "x": 1}, {"threshold": 1}, {"pubkeys": [HK]},
    {"signature": SIG}, {"signature": SIG, "other_headers": "04"}, {"signature": SIG, "other_headers": "04", "see_also": "ab" * 20},
    {"signature": "x"}, {"signatures": {}, "signed": {}}, {"signatures": {}, "signed": None}, {"signatures": [], "signed": {}},
    {"signatures": {}, "signed": {}, "extra": 1}, {"signed": {}},
    {"$py": "deep", "depth": 60, "kind": "list"}, {"$py": "deep", "depth": 60, "kind": "dict"},
    {"$py": "longstr", "n": 100000, "ch": "a"}, {"$py": "longstr", "n": 5000, "ch": "é"},
]

PY_PALETTE = [
    {"$py": n}
    for n in (
        "object", "function", "class", "complex", "decimal_1", "decimal_2_5", "decimal_inf", "decimal_nan", "decimal_snan",
        "fraction_2", "fraction_half", "range3", "generator", "datetime", "date", "timedelta", "set_empty", "set_ab",
        "frozenset_a", "memoryview", "ellipsis", "notimplemented", "type_int", "bytes_empty", "dict_intkeys", "dict_mixedkeys",
        "dict_nonekey", "dict_tuplekey", "tuple_empty",
    )
] + [
    {"$py": "bytes", "hex": "ab" * 32}, {"$py": "bytes", "hex": "61" * 64}, {"$py": "bytearray", "hex": "ab" * 32},
    {"$py": "tuple", "items": [HK]}, {"$py": "tuple", "items": [1, 2]},
    {"$py": "strsub", "v": HK}, {"$py": "strsub", "v": "root"}, {"$py": "intsub", "v": 1}, {"$py": "intsub", "v": 0},
    {"$py": "dictsub", "v": {"pubkeys": [HK], "threshold": 1}}, {"$py": "dictsub", "v": {}}, {"$py": "listsub", "v": [HK]},
    {"$py": "key", "which": "private", "seed": "00" * 32}, {"$py": "key", "which": "public", "seed": "00" * 32},
    # mappings with a __missing__ hook (collections.defaultdict): indexing manufactures values, membership tests do not
    {"$py": "defaultdict", "default": {}, "v": {}}, {"$py": "defaultdict", "default": 0, "v": {}},
    {"$py": "defaultdict", "default": {"pubkeys": [HK], "threshold": 1}, "v": {}},
    {"$py": "defaultdict", "default": {"pubkeys": [HK], "threshold": 1}, "v": {"pkg_mgr": {"pubkeys": [HK2], "threshold": 1}}},
    {"$py": "defaultdict", "default": SIG, "v": {}}, {"$py": "defaultdict", "default": "", "v": {"signature": SIG, "other_headers": "04"}},
    {"$py": "defaultdict", "default": None, "v": {"signature": SIG}},
]

# containers and byte strings whose LENGTH equals a grammar's fixed length (40 / 64 / 128): length-first checks
SIZED = []
for _n in (39, 40, 41, 64, 128):
    SIZED += [{"$py": "listn", "n": _n}, {"$py": "dictn", "n": _n}, {"$py": "bytesn", "n": _n}, {"$py": "tuplen", "n": _n},
              {"$py": "listn", "n": _n, "item": "ab"}, {"$py": "bytesn", "n": _n, "ch": "0"}]
SIZED += [{"$py": "listn", "n": 40, "item": 0}, {"$py": "dictn", "n": 2, "prefix": "signature"}]

ALL = JSON_PALETTE + PY_PALETTE + SIZED
