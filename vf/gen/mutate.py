"""Single-path (and double) mutations of JSON documents in the case language."""
import copy

from . import jsonvals


def _paths(v, prefix=()):
    """paths into plain JSON structure; never descends into tagged ($py) values"""
    yield prefix
    if type(v) is dict and "$py" not in v:
        for k in v:
            yield from _paths(v[k], prefix + (k,))
    elif type(v) is list:
        for i, x in enumerate(v):
            yield from _paths(x, prefix + (i,))


NONSTR_KEYS = [5, 0, None, True, 1.5, {"$py": "tuple", "items": ["root"]}, {"$py": "bytes", "hex": "726f6f74"}]


def paths(doc):
    return list(_paths(doc))


def apply(doc, mut):
    """mut = [op, path, arg]; returns a new document"""
    op, path, arg = mut[0], tuple(mut[1]), mut[2] if len(mut) > 2 else None
    if op == "replace":
        return jsonvals.set_path(doc, path, copy.deepcopy(arg))
    if op == "delete":
        return jsonvals.del_path(doc, path)
    d = copy.deepcopy(doc)
    cur = d
    for p in path:
        cur = cur[p]
    if op == "addfield":
        cur[arg[0]] = copy.deepcopy(arg[1])
        return d
    if op == "dupitem":
        cur.insert(arg, copy.deepcopy(cur[arg]))
        return d
    if op == "retypekey":
        # cur[arg[0]] is a plain dict: one of its keys (arg[1]) is replaced by a NON-string hashable (case-language value arg[2])
        inner = cur[arg[0]] if arg[0] is not None else cur
        items = [[(arg[2] if k == arg[1] else k), v] for k, v in inner.items()]
        new = {"$py": "pydict", "items": items}
        if arg[0] is None:
            return new
        cur[arg[0]] = new
        return d
    if op == "renamekey":
        # cur is a dict: rename key arg[0] -> arg[1]
        new = {}
        for k, v in cur.items():
            new[arg[1] if k == arg[0] else k] = v
        cur.clear()
        cur.update(new)
        return d
    raise ValueError(op)


def random_mutation(doc, rng, palette, ps=None):
    ps = ps or paths(doc)
    p = rng.choice(ps)
    target = jsonvals.get_path(doc, p)
    r = rng.random()
    if r < 0.62 or not p:
        if not p and rng.random() < 0.5 and type(target) is dict:
            return ["addfield", list(p), [rng.choice(["extra", "", "signed ", "Signatures"]), rng.choice(palette)]]
        return ["replace", list(p), rng.choice(palette)]
    if r < 0.78:
        return ["delete", list(p)]
    if r < 0.9 and type(target) is dict and "$py" not in target:
        return ["addfield", list(p), [rng.choice(["extra", "", "x", "threshold ", "Pubkeys", "version"]), rng.choice(palette)]]
    if type(target) is list and target:
        return ["dupitem", list(p), rng.randrange(len(target))]
    parent = jsonvals.get_path(doc, p[:-1])
    if p and type(target) is dict and target and "$py" not in target and all(isinstance(k, str) for k in target) and rng.random() < 0.5:
        return ["retypekey", list(p[:-1]), [p[-1], rng.choice(sorted(target)), rng.choice(NONSTR_KEYS)]]
    if type(parent) is dict:
        k = p[-1]
        return ["renamekey", list(p[:-1]), [k, rng.choice([k + " ", k.upper(), k + "\x00", " " + k, k[:-1] if k else "x"])]]
    return ["replace", list(p), rng.choice(palette)]


def systematic(doc, palette):
    """every path x (delete, every palette value, extra field, duplicate)"""
    for p in paths(doc):
        target = jsonvals.get_path(doc, p)
        if p:
            yield ["delete", list(p)]
        for v in palette:
            yield ["replace", list(p), v]
        if type(target) is dict and "$py" not in target:
            yield ["addfield", list(p), ["extra", 1]]
            yield ["addfield", list(p), ["", None]]
        if type(target) is list:
            for i in range(len(target)):
                yield ["dupitem", list(p), i]
        if p and type(target) is dict and target and "$py" not in target and all(isinstance(k, str) for k in target):
            # Python-level documents: a key of this mapping that is not a string
            k0 = sorted(target)[0]
            for nk in NONSTR_KEYS:
                yield ["retypekey", list(p[:-1]), [p[-1], k0, nk]]
