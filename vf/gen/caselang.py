"""Case language: every case a workload executes is a JSON document, so that a replay
re-materialises exactly the same arguments in a fresh process.

JSON values stand for themselves (Python's json round-trips NaN/Infinity tokens and
escapes lone surrogates).  Python-only values are tagged:
    {"$py": "<palette name>"}                       a palette value (see PALETTE)
    {"$py": "bytes"|"bytearray", "hex": "..."}      byte strings
    {"$py": "tuple", "items": [...]}                tuples
    {"$py": "pydict", "items": [[k, v], ...]}       dicts with arbitrary (hashable) keys
    {"$py": "defaultdict", "default": c, "v": {..}} collections.defaultdict producing dec(c) for missing keys
    {"$py": "bigint", "digits": n, "lead": "9"}     huge integers (not spelled out)
    {"$py": "deep", "depth": n, "kind": "list"}     deeply nested containers
    {"$py": "strsub"|"intsub"|"dictsub"|"listsub", "v": ...}  subclass instances
    {"$py": "key", "which": "private"|"public", "seed": hex}   library key objects
"""
import datetime
import decimal
import fractions


class StrSub(str):
    pass


class IntSub(int):
    pass


class DictSub(dict):
    pass


class ListSub(list):
    pass


class Opaque:
    def __repr__(self):
        return "<Opaque>"


def _gen():
    yield 1


PALETTE = {
    "object": lambda: Opaque(),
    "function": lambda: (lambda x: x),
    "class": lambda: Opaque,
    "complex": lambda: complex(1, 1),
    "decimal_1": lambda: decimal.Decimal(1),
    "decimal_2_5": lambda: decimal.Decimal("2.5"),
    "decimal_inf": lambda: decimal.Decimal("Infinity"),
    "decimal_nan": lambda: decimal.Decimal("NaN"),
    "decimal_snan": lambda: decimal.Decimal("sNaN"),
    "fraction_2": lambda: fractions.Fraction(2, 1),
    "fraction_half": lambda: fractions.Fraction(1, 2),
    "range3": lambda: range(3),
    "generator": _gen,
    "datetime": lambda: datetime.datetime(2021, 1, 1, 0, 0, 0),
    "date": lambda: datetime.date(2021, 1, 1),
    "timedelta": lambda: datetime.timedelta(days=1),
    "set_empty": lambda: set(),
    "set_ab": lambda: {"a", "b"},
    "frozenset_a": lambda: frozenset({"a"}),
    "memoryview": lambda: memoryview(b"ab" * 16),
    "ellipsis": lambda: ...,
    "notimplemented": lambda: NotImplemented,
    "type_int": lambda: int,
    "bytes_empty": lambda: b"",
    "dict_intkeys": lambda: {1: "a", 2: "b"},
    "dict_mixedkeys": lambda: {1: "a", "b": 2},
    "dict_nonekey": lambda: {None: 1},
    "dict_tuplekey": lambda: {(1, 2): 1},
    "tuple_empty": lambda: (),
}


def dec(j, lib=None):
    if isinstance(j, list):
        return [dec(x, lib) for x in j]
    if isinstance(j, dict):
        if "$py" in j and isinstance(j["$py"], str):
            t = j["$py"]
            if t in ("bytes", "bytearray"):
                b = bytes.fromhex(j["hex"])
                return b if t == "bytes" else bytearray(b)
            if t == "tuple":
                return tuple(dec(x, lib) for x in j["items"])
            if t == "bigint":
                n = int(j.get("lead", "9") * j["digits"])
                return -n if j.get("neg") else n
            if t == "deep":
                v = j.get("leaf", 0)
                for _ in range(j["depth"]):
                    v = [v] if j.get("kind", "list") == "list" else {"k": v}
                return v
            if t == "strsub":
                return StrSub(j["v"])
            if t == "intsub":
                return IntSub(j["v"])
            if t == "dictsub":
                return DictSub(dec(j["v"], lib))
            if t == "listsub":
                return ListSub(dec(j["v"], lib))
            if t == "key":
                seed = bytes.fromhex(j["seed"])
                if j["which"] == "private":
                    return lib.common.PrivateKey.from_bytes(seed)
                from ..refs import ed25519

                return lib.common.PublicKey.from_bytes(ed25519.public(seed))
            if t == "defaultdict":
                # a dict subclass with __missing__: d[key] manufactures (and stores) a default, `key in d` does not
                import collections

                dflt = j.get("default")
                return collections.defaultdict(lambda: dec(dflt, lib), dec(j.get("v", {}), lib))
            if t == "pydict":
                # a dict whose KEYS need not be strings: items = [[key case, value case], ...]
                return {dec(k, lib): dec(v, lib) for k, v in j["items"]}
            if t == "float":
                return float(j["v"])
            if t == "longstr":
                return j.get("ch", "a") * j["n"]
            if t == "listn":
                return [j.get("item", "a")] * j["n"]
            if t == "tuplen":
                return tuple([j.get("item", "a")] * j["n"])
            if t == "dictn":
                return {"%s%d" % (j.get("prefix", "k"), i): j.get("item", 0) for i in range(j["n"])}
            if t == "bytesn":
                return (j.get("ch", "a") * j["n"]).encode("ascii")
            if t in PALETTE:
                return PALETTE[t]()
            raise ValueError("unknown $py tag %r" % t)
        return {k: dec(v, lib) for k, v in j.items()}
    return j


def is_pure_json(j):
    if isinstance(j, list):
        return all(is_pure_json(x) for x in j)
    if isinstance(j, dict):
        if "$py" in j:
            return False
        return all(is_pure_json(v) for v in j.values())
    return True
