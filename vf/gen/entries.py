"""Signature-entry states (DESIGN.md 3.3).  Entries are produced with the reference
signer only.  Each state has an *intended* status ('valid' / 'invalid' / 'grey');
the model recomputes the status independently and a disagreement between intent and
model is a harness bug (counted as inconclusive, never blamed on the library)."""
import json

from ..refs import ed25519, openpgp
from . import keys as gkeys

RAW_STATES = [
    # (name, intended)
    ("valid", "valid"),
    ("valid_nonce", "valid"),
    ("malleated", "invalid"),
    ("bitflip", "invalid"),
    ("other_payload", "invalid"),
    ("envelope_signed", "invalid"),
    ("compact_signed", "invalid"),
    ("other_key", "invalid"),
    ("len_minus", "invalid"),
    ("len_plus", "invalid"),
    ("upper", "invalid"),
    ("bare_string", "invalid"),
    ("extra_field", "invalid"),
    ("none", "invalid"),
    ("number", "invalid"),
    ("list", "invalid"),
    ("sig_not_str", "invalid"),
    ("empty_dict", "invalid"),
    ("gpg_shape_rawvalid", "grey"),
    ("gpg_valid_in_raw", "invalid"),
]

GPG_STATES = [
    ("valid", "valid"),
    ("valid_randhdr", "valid"),
    ("valid_see_also", "valid"),
    ("valid_see_also_digits_only", "valid"),
    ("valid_see_also_letters_only", "valid"),
    ("valid_nonce", "valid"),
    ("valid_longhdr", "valid"),
    ("malleated", "invalid"),
    ("bitflip", "invalid"),
    ("hdr_flip", "invalid"),
    ("hdr_truncated", "invalid"),
    ("hdr_extended", "invalid"),
    ("boundary_shift", "invalid"),
    ("other_payload", "invalid"),
    ("other_key", "invalid"),
    ("raw_valid_in_gpg", "invalid"),
    ("raw_sig_with_hdr", "invalid"),
    ("bad_see_also", "invalid"),
    ("extra_field", "invalid"),
    ("hdr_upper", "invalid"),
    ("hdr_odd", "invalid"),
    ("hdr_empty", "invalid"),
    ("hdr_hex_whitespace", "invalid"),
    ("hdr_hex_trailing_lf", "invalid"),
    ("hugehdr_garbage_sig", "invalid"),
    ("alg_sha512_declared_and_used", "invalid"),
    ("alg_sha1_declared_and_used", "invalid"),
    ("alg_sha384_declared_and_used", "invalid"),
    ("alg_sha512_declared_sha256_used", "valid"),
    ("none", "invalid"),
    ("bare_string", "invalid"),
    ("len_plus", "invalid"),
]


def _flip(b, rng):
    b = bytearray(b)
    i = rng.randrange(len(b) * 8)
    b[i // 8] ^= 1 << (i % 8)
    return bytes(b)


def _fp(rng):
    return rng.getrandbits(160).to_bytes(20, "big")


def _hdr(rng, style="gnupg"):
    if style == "gnupg":
        return openpgp.gnupg_style_header(_fp(rng), rng.randrange(2**32))
    if style == "long":
        n = rng.choice([255, 256, 257, 1000, 65535, 65536, 65541, 65542, 70000, 131072])
        return rng.getrandbits(8 * n).to_bytes(n, "big")
    n = rng.choice([1, 2, 3, 34, 35, 70])
    return rng.getrandbits(8 * n).to_bytes(n, "big")


def other_data(data, rng):
    r = rng.random()
    if r < 0.3:
        return data + b" "
    if r < 0.5 and len(data) > 0:
        return data[:-1]
    if r < 0.7:
        return _flip(data, rng) if data else b"x"
    return b"null" if data != b"null" else b"0"


def make_raw(state, key, data, rng, signable_signed=None):
    seed = key.seed
    good = ed25519.sign(seed, data)
    if state == "valid":
        return {"signature": good.hex()}
    if state == "valid_nonce":
        return {"signature": ed25519.sign_with_nonce(seed, data, rng.getrandbits(252)).hex()}
    if state == "malleated":
        return {"signature": ed25519.malleate_S(good).hex()}
    if state == "bitflip":
        return {"signature": _flip(good, rng).hex()}
    if state == "other_payload":
        return {"signature": ed25519.sign(seed, other_data(data, rng)).hex()}
    if state == "envelope_signed":
        env = b'{\n  "signatures": {},\n  "signed": ' + data + b"\n}"
        return {"signature": ed25519.sign(seed, env).hex()}
    if state == "compact_signed":
        try:
            compact = json.dumps(signable_signed, sort_keys=True, separators=(",", ":")).encode()
        except Exception:
            compact = data + b"\n"
        if compact == data:
            compact = data + b"\n"
        return {"signature": ed25519.sign(seed, compact).hex()}
    if state == "other_key":
        other = gkeys.Key(bytes(rng.getrandbits(8) for _ in range(32)))
        return {"signature": ed25519.sign(other.seed, data).hex()}
    if state == "len_minus":
        return {"signature": good.hex()[:-2]}
    if state == "len_plus":
        return {"signature": good.hex() + "00"}
    if state == "upper":
        h = good.hex().upper()
        if h == good.hex():
            h = h[:-1] + "A"
        return {"signature": h}
    if state == "bare_string":
        return good.hex()
    if state == "extra_field":
        return {"signature": good.hex(), "extra": "x"}
    if state == "none":
        return None
    if state == "number":
        return 5
    if state == "list":
        return [good.hex()]
    if state == "sig_not_str":
        return {"signature": rng.choice([None, 5, [good.hex()], {"signature": good.hex()}])}
    if state == "empty_dict":
        return {}
    if state == "gpg_shape_rawvalid":
        return {"other_headers": _hdr(rng).hex(), "signature": good.hex()}
    if state == "gpg_valid_in_raw":
        h = _hdr(rng)
        return openpgp.make_entry(seed, data, h)
    raise ValueError(state)


def make_gpg(state, key, data, rng):
    seed = key.seed
    if state == "valid":
        return openpgp.make_entry(seed, data, _hdr(rng))
    if state == "valid_randhdr":
        return openpgp.make_entry(seed, data, _hdr(rng, "rand"))
    if state == "valid_longhdr":
        return openpgp.make_entry(seed, data, _hdr(rng, "long"))
    if state == "valid_see_also":
        return openpgp.make_entry(seed, data, _hdr(rng), see_also=_fp(rng).hex())
    if state == "valid_see_also_digits_only":
        return openpgp.make_entry(seed, data, _hdr(rng), see_also="".join(rng.choice("0123456789") for _ in range(40)))
    if state == "valid_see_also_letters_only":
        return openpgp.make_entry(seed, data, _hdr(rng), see_also="".join(rng.choice("abcdef") for _ in range(40)))
    if state == "valid_nonce":
        return openpgp.make_entry(seed, data, _hdr(rng), nonce=rng.getrandbits(252))
    h = _hdr(rng)
    good = openpgp.make_entry(seed, data, h)
    sig = bytes.fromhex(good["signature"])
    if state == "malleated":
        return dict(good, signature=ed25519.malleate_S(sig).hex())
    if state == "bitflip":
        return dict(good, signature=_flip(sig, rng).hex())
    if state == "hdr_flip":
        return dict(good, other_headers=_flip(h, rng).hex())
    if state == "hdr_truncated":
        return dict(good, other_headers=h[:-1].hex()) if len(h) > 1 else dict(
            good, other_headers=(h + b"\x00").hex()
        )
    if state == "hdr_extended":
        return dict(good, other_headers=(h + b"\x00").hex())
    if state == "boundary_shift":
        # signature made over (data + h[:1], h[1:]): identical byte stream except for
        # the length trailer
        if len(h) < 2:
            h = h + b"\x01\x02"
        e = openpgp.make_entry(seed, data + h[:1], h[1:])
        return {"other_headers": h.hex(), "signature": e["signature"]}
    if state == "other_payload":
        return openpgp.make_entry(seed, other_data(data, rng), h)
    if state == "other_key":
        other = gkeys.Key(bytes(rng.getrandbits(8) for _ in range(32)))
        return openpgp.make_entry(other.seed, data, h)
    if state == "raw_valid_in_gpg":
        return {"signature": ed25519.sign(seed, data).hex()}
    if state == "raw_sig_with_hdr":
        return {"other_headers": h.hex(), "signature": ed25519.sign(seed, data).hex()}
    if state == "bad_see_also":
        return dict(good, see_also=rng.choice(["", "abc", _fp(rng).hex().upper()[:39] + "G", 5, None]))
    if state == "extra_field":
        return dict(good, keyid=_fp(rng).hex())
    if state == "hdr_upper":
        hh = h.hex().upper()
        if hh == h.hex():
            return dict(good, other_headers="AB")
        return dict(good, other_headers=hh)
    if state == "hdr_hex_trailing_lf":
        # exactly one line feed after the genuine header's hex (what `$` in a regular expression lets through)
        return dict(good, other_headers=h.hex() + "\n")
    if state == "hdr_hex_whitespace":
        # the genuine header's hex with white space a lenient hex decoder skips (one trailing line feed, inner blanks, ...): not a
        # hex string; the entry is malformed although a lenient decoder recovers the very bytes that were signed
        hx = h.hex()
        return dict(good, other_headers=rng.choice([hx + "\n", hx + "\n", hx + " ", " " + hx, hx[:8] + " " + hx[8:], hx + "\r\n", hx[:2] + "\t" + hx[2:],
                                                     hx + "\n\n", "\n" + hx, hx + "\x0b", hx + "\x0c", hx + "\u2028", hx + "\x00"]))
    if state == "hdr_odd":
        return dict(good, other_headers=h.hex()[:-1])
    if state == "hdr_empty":
        e = openpgp.make_entry(seed, data, b"")
        return e  # well-formedness requires a non-empty hex string
    if state.startswith("alg_"):
        # GnuPG-shaped header DECLARING another digest algorithm (byte 3).  The only valid signature in this scheme is over
        # SHA-256 whatever the unsigned header says; one made over the declared digest must not count.
        import hashlib as _hl

        algo = {"sha512": (0x0A, _hl.sha512), "sha1": (0x02, _hl.sha1), "sha384": (0x09, _hl.sha384)}[state.split("_")[1]]
        hb = bytearray(_hdr(rng))
        hb[3] = algo[0]
        hb = bytes(hb)
        if state.endswith("sha256_used"):
            return openpgp.make_entry(seed, data, hb)
        dg = algo[1](data + hb + b"\x04\xff" + openpgp.be32(len(hb))).digest()
        return {"other_headers": hb.hex(), "signature": ed25519.sign(seed, dg).hex()}
    if state == "hugehdr_garbage_sig":
        # well-formed entry, arbitrary signature value, header longer than any OpenPGP hashed area can be
        n = rng.choice([65541, 65542, 65600, 100000])
        return {"other_headers": (rng.randbytes(64) * (n // 64 + 1))[:n].hex(), "signature": "%0128x" % rng.getrandbits(512)}
    if state == "none":
        return None
    if state == "bare_string":
        return good["signature"]
    if state == "len_plus":
        return dict(good, signature=good["signature"] + "00")
    raise ValueError(state)


def make(state, gpg, key, data, rng, signed=None):
    if gpg:
        return make_gpg(state, key, data, rng)
    return make_raw(state, key, data, rng, signed)


def states(gpg):
    return GPG_STATES if gpg else RAW_STATES


def valid_states(gpg):
    return [s for s, i in states(gpg) if i == "valid"]


def invalid_states(gpg):
    return [s for s, i in states(gpg) if i == "invalid"]


def junk_pair(rng):
    """(key, value) junk entry for the signature map: any JSON strings / values"""
    from . import jsonvals

    r = rng.random()
    if r < 0.3:
        k = jsonvals.rand_string(rng, 10)
    elif r < 0.5:
        k = rng.choice(["junk", "\ud800", "é", "", "signed", "0x00", "\x00", "😀"])
    elif r < 0.8:
        k = gkeys.junk_hexkey(rng)
    else:
        k = gkeys.junk_hexkey(rng)[: rng.choice([2, 40, 62, 63])]
    r = rng.random()
    if r < 0.3:
        v = jsonvals.rand_value(rng, 0, 2, 3)
    elif r < 0.5:
        v = {"signature": "%0128x" % rng.getrandbits(512)}
    elif r < 0.7:
        v = {"other_headers": "04001608", "signature": "%0128x" % rng.getrandbits(512)}
    elif r < 0.8:
        v = "x"
    else:
        v = {"signature": jsonvals.rand_string(rng, 8), "é\ud800": None}
    return k, v
