"""Seeded generators of hostile JSON values (the domain a parser of well-formed JSON
text can return) and of structure-preserving re-orderings."""
import math
import struct

EDGE_STRINGS = [
    "",
    "a",
    "A",
    " ",
    "\x00",
    "\x1f",
    "\x7f",
    "\x80",
    "é",
    "é",
    " ",
    "﻿",
    "￿",
    "\U00010000",
    "\U0001f600",
    "\U0010ffff",
    "\ud800",
    "\udfff",
    "\udc00\ud800",  # reversed pair: two lone surrogates
    '"',
    "\\",
    "\\u0041",
    "\n\r\t\b\f",
    "/",
    "</script>",
    "١٢",  # arabic-indic digits
    "１",  # full-width digit
    "true",
    "null",
    "1",
    "1.0",
    "NaN",
    "signed",
    "signatures",
    "K",
    "K",  # kelvin sign (case-folds to k)
    "ſ",
    "ß",
    # two-character sequences a "normalising" serializer could fold
    "\r\n",
    "a\r\nb",
    "\n\r",
    "\r",
    "\n",
    "\t",
    "line1\nline2\r\n",
    "\\r\\n",  # the four characters  backslash r backslash n
    "\\n",
    "\\\\",
    "\\\"",
    "\\u000a",
    "  two  spaces  ",
    " leading",
    "trailing ",
    "tab\there",
    "e\u0301",  # e + combining acute (NFD)
    "\u00e9",  # precomposed (NFC)
    "\u2028\u2029",
    "\x85",
    "\x0b\x0c",
    "a\x00b",
    ": ",
    ", ",
    ",\n",
    "{}",
    "[]",
]

EDGE_FLOATS = [
    0.0,
    -0.0,
    1.0,
    -1.0,
    0.1,
    1e16,
    1e15,
    9999999999999998.0,
    1e22,
    1e23,
    1.5e300,
    5e-324,
    2.2250738585072014e-308,
    1.7976931348623157e308,
    1e-7,
    0.0001,
    123456789.12345678,
    float("nan"),
    float("inf"),
    float("-inf"),
    2.0**53,
    2.0**53 + 2,
    1 / 3,
]

EDGE_INTS = [0, 1, -1, 2, 10, 2**31, 2**53, 2**53 + 1, 2**63, 2**64, -(2**63), 10**30, 10**400]


import re as _re

_ADJ_PAIR = _re.compile("([\ud800-\udbff])(?=[\udc00-\udfff])")


def rand_string(rng, maxlen=12):
    """random hostile string from the PARSER-VALUE domain: isolated lone surrogates may occur, an adjacent
    high+low pair written as two code units may not (no JSON parser returns it; it would collide with the
    non-BMP character by construction) - the high half of such a pair is separated from the low half"""
    return _ADJ_PAIR.sub(lambda m: m.group(1) + "-", _rand_string(rng, maxlen))


def _rand_string(rng, maxlen=12):
    r = rng.random()
    if r < 0.35:
        return rng.choice(EDGE_STRINGS)
    n = rng.randint(0, maxlen)
    out = []
    for _ in range(n):
        c = rng.random()
        if c < 0.5:
            out.append(chr(rng.randint(0x20, 0x7E)))
        elif c < 0.6:
            out.append(chr(rng.randint(0, 0x1F)))
        elif c < 0.75:
            out.append(chr(rng.randint(0x80, 0x7FF)))
        elif c < 0.85:
            cp = rng.randint(0x800, 0xFFFF)
            out.append(chr(cp))  # may be a lone surrogate
        elif c < 0.95:
            out.append(chr(rng.randint(0x10000, 0x10FFFF)))
        else:
            out.append(rng.choice(["\ud800", "\udbff", "\udc00", "\udfff"]))
    return "".join(out)


def rand_float(rng):
    r = rng.random()
    if r < 0.4:
        return rng.choice(EDGE_FLOATS)
    if r < 0.7:
        # random bit pattern: covers subnormals, huge, NaN payloads
        return struct.unpack("<d", struct.pack("<Q", rng.getrandbits(64)))[0]
    if r < 0.85:
        return rng.uniform(-1e6, 1e6)
    return float(rng.randint(-(10**17), 10**17))


def rand_int(rng, big=True):
    r = rng.random()
    if r < 0.4:
        return rng.choice(EDGE_INTS)
    if r < 0.8:
        return rng.randint(-1000, 1000)
    if big and r < 0.9:
        return rng.choice([1, -1]) * rng.getrandbits(rng.choice([64, 128, 1024, 13000]))
    return rng.getrandbits(70)


def rand_scalar(rng):
    r = rng.random()
    if r < 0.30:
        return rand_string(rng)
    if r < 0.50:
        return rand_int(rng)
    if r < 0.70:
        return rand_float(rng)
    if r < 0.80:
        return rng.choice([True, False])
    if r < 0.88:
        return None
    return rng.choice([{}, [], "", 0])


def rand_value(rng, depth=0, maxdepth=4, width=4):
    if depth >= maxdepth or rng.random() < 0.25 + 0.1 * depth:
        return rand_scalar(rng)
    if rng.random() < 0.55:
        n = rng.randint(0, width)
        d = {}
        for _ in range(n):
            d[rand_string(rng, 6)] = rand_value(rng, depth + 1, maxdepth, width)
        return d
    n = rng.randint(0, width)
    return [rand_value(rng, depth + 1, maxdepth, width) for _ in range(n)]


def rand_payload(rng, size="small"):
    """a payload as artifact metadata / arbitrary signed content"""
    r = rng.random()
    if r < 0.12:
        return rand_scalar(rng)
    if r < 0.20:
        return self_similar(rng)
    if size == "small":
        return rand_value(rng, 0, 3, 3)
    return rand_value(rng, 0, 5, 6)


def self_similar(rng):
    """payloads that use the library's OWN vocabulary as plain data: an already signed envelope (counter-signing), a record that
    has members called signatures / signed / signature / delegations, a signature entry, a map of entries.  To the signing and
    verifying code a payload is opaque: these are JSON values like any other"""
    hx = lambda n: "".join(rng.choice("0123456789abcdef") for _ in range(n))  # noqa: E731
    inner = rand_value(rng, 0, 2, 3)
    ent = rng.choice([{"signature": hx(128)}, {"signature": hx(128), "other_headers": hx(16)}, {}, "x", None])
    sigs = rng.choice([{}, {hx(64): ent}, {hx(64): ent, hx(64): {"signature": hx(128)}}, {"k": 1}, [], None, "none", 0])
    shape = rng.randrange(9)
    if shape == 0:
        return {"signatures": sigs, "signed": inner}
    if shape == 1:
        return {"signatures": sigs, "signed": {"signatures": {}, "signed": inner}}
    if shape == 2:
        return {"signatures": sigs, "name": "pkg", "version": "1.0", "depends": [inner]}
    if shape == 3:
        return {"signed": inner}
    if shape == 4:
        return {"signature": hx(128), "payload": inner}
    if shape == 5:
        return {"signatures": sigs}
    if shape == 6:
        return {"type": rng.choice(["root", "key_mgr", "pkg_mgr"]), "delegations": {"root": {"pubkeys": [hx(64)], "threshold": 1}}, "signatures": sigs}
    if shape == 7:
        return [{"signatures": sigs, "signed": inner}, {"signatures": {}, "signed": inner}]
    return {"packages": {"a-1-0.tar.bz2": {"signatures": sigs, "signed": inner}}, "signatures": {"a-1-0.tar.bz2": sigs}}


def shuffled(v, rng):
    """same JSON value, different insertion order (recursively)"""
    if type(v) is dict:
        ks = list(v.keys())
        rng.shuffle(ks)
        return {k: shuffled(v[k], rng) for k in ks}
    if type(v) is list:
        return [shuffled(x, rng) for x in v]
    return v


def deep(depth, kind="list", leaf=0):
    v = leaf
    for _ in range(depth):
        v = [v] if kind == "list" else {"k": v}
    return v


NEAR_COLLISION_FAMILIES = [
    [1, 1.0, "1", True, [1], {"1": 1}],
    [0, 0.0, -0.0, False, None, "", "0", [], {}],
    ["A", "\\u0041", "A\u0000", "a"],
    [{"a": {"b": 1}}, {"a": 1, "b": 1}, {"a": [{"b": 1}]}, {"a": {"b": [1]}}],
    [[1, 2], [2, 1], [[1, 2]], [1, [2]], [[1], 2]],
    [{"a": 1, "b": 2}, {"a": 2, "b": 1}, {"a": 1, "b": 2, "c": None}],
    ["é", "é", "\\u00e9", "É"],
    ["\U0001f600", "\ud83d", "\ude00", "\\ud83d\\ude00"],
    [1e16, 10**16, "1e+16", 1e16 + 2],
    [float("nan"), "NaN", None],
    [float("inf"), "Infinity", 1.7976931348623157e308],
    ["a\nb", "a\\nb", "a\n  b", "a\n", "a"],
    [{"k": "v,\n  w"}, {"k": "v", "  w": None}],
    [{"": 1}, {" ": 1}, {"\x00": 1}, {}],
    [[], [[]], [[], []], [None], [""]],
    [0.1, 0.1000000000000000055511151231257827, 0.10000000000000002, "0.1"],
    [2**53, 2**53 + 1, float(2**53)],
    ["K", "K", "k"],
]


def walk_paths(v, prefix=()):
    """all JSON paths (tuples of keys/indices) in v, containers included"""
    yield prefix
    if type(v) is dict:
        for k in v:
            yield from walk_paths(v[k], prefix + (k,))
    elif type(v) is list:
        for i, x in enumerate(v):
            yield from walk_paths(x, prefix + (i,))


def get_path(v, path):
    for p in path:
        v = v[p]
    return v


def set_path(v, path, new):
    """returns a deep-copied v with v[path] = new (path non-empty) or new itself"""
    import copy

    if not path:
        return new
    v = copy.deepcopy(v)
    cur = v
    for p in path[:-1]:
        cur = cur[p]
    cur[path[-1]] = new
    return v


def del_path(v, path):
    import copy

    v = copy.deepcopy(v)
    cur = v
    for p in path[:-1]:
        cur = cur[p]
    del cur[path[-1]]
    return v
