"""Standard-output sinks.  A StringIO would hide print-encoding defects (D7), so the
sink is a real TextIOWrapper with a strict error handler over a discarding raw stream
that only counts bytes (and keeps a small tail for contradiction checks)."""
import io
import sys


class _CountingRaw(io.RawIOBase):
    def __init__(self, keep=4096):
        super().__init__()
        self.nbytes = 0
        self.keep = keep
        self.tail = b""

    def writable(self):
        return True

    def write(self, b):
        n = len(b)
        self.nbytes += n
        if self.keep:
            self.tail = (self.tail + bytes(b))[-self.keep :]
        return n


class Sink:
    def __init__(self, encoding="utf-8", errors="strict"):
        self.encoding = encoding
        self.errors = errors
        self.raw = _CountingRaw()
        self.stream = io.TextIOWrapper(
            self.raw, encoding=encoding, errors=errors, write_through=True, newline="\n"
        )
        self._saved = None

    def install(self):
        self._saved = sys.stdout
        sys.stdout = self.stream
        return self

    def uninstall(self):
        if self._saved is not None:
            sys.stdout = self._saved
            self._saved = None

    def mark(self):
        return self.raw.nbytes

    def text_tail(self):
        return self.raw.tail.decode(self.encoding, "replace")

    def __enter__(self):
        return self.install()

    def __exit__(self, *a):
        self.uninstall()
