"""Private GnuPG home for the GnuPG-backed sub-workloads (real second signer)."""
import os
import shutil
import subprocess
import tempfile

HERE = os.path.dirname(os.path.dirname(os.path.dirname(os.path.abspath(__file__))))
FIXKEYS = os.path.join(HERE, "fixtures", "testdata")

# fingerprints / raw public values of the two keys shipped with the repository's tests
SHIPPED = {
    "917adb684e2e9fb5ed4e59909ddd19a1268b62d0": "c8bd83b3bfc991face417d97b9c0db011b5d256476b602b92fec92849fc2b36c",
    "0a14b126c986f276831c7b04134f35b47db43643": "a59cea0987ee9046d68d2d011e919eb9278e3f478cca77f5204d65191ff8d7a5",
}


def gpg_available():
    return shutil.which("gpg") is not None


class GpgHome:
    def __init__(self):
        self.home = None
        self.generated = []
        self._saved = None

    def _gpg(self, args, data=b"", check=True):
        p = subprocess.run(
            ["gpg", "--homedir", self.home, "--batch", "--no-tty", "--pinentry-mode", "loopback", "--passphrase", ""] + args,
            input=data, stdout=subprocess.PIPE, stderr=subprocess.PIPE, timeout=120,
        )
        if check and p.returncode != 0:
            raise RuntimeError("gpg %s failed: %s" % (args[:2], p.stderr.decode("utf-8", "replace")[-300:]))
        return p

    def __enter__(self):
        self.home = tempfile.mkdtemp(prefix="vg", dir="/tmp")  # short path: agent socket limit
        os.chmod(self.home, 0o700)
        self._saved = os.environ.get("GNUPGHOME")
        os.environ["GNUPGHOME"] = self.home
        for f in sorted(os.listdir(FIXKEYS)):
            if f.endswith(".pri.asc"):
                self._gpg(["--import", os.path.join(FIXKEYS, f)])
        return self

    def generate(self, n=1):
        out = []
        for i in range(n):
            uid = "vf-gen-%d-%d@example.invalid" % (len(self.generated), os.getpid())
            self._gpg(["--quick-gen-key", uid, "ed25519", "sign", "never"])
            p = self._gpg(["--with-colons", "--list-keys", uid])
            fpr = None
            for line in p.stdout.decode().splitlines():
                if line.startswith("fpr:"):
                    fpr = line.split(":")[9].lower()
                    break
            self.generated.append(fpr)
            out.append(fpr)
        return out

    def fingerprints(self):
        return list(SHIPPED) + list(self.generated)

    def __exit__(self, *a):
        try:
            subprocess.run(["gpgconf", "--homedir", self.home, "--kill", "gpg-agent"], stdout=subprocess.DEVNULL,
                           stderr=subprocess.DEVNULL, timeout=30)
        except Exception:
            pass
        shutil.rmtree(self.home, ignore_errors=True)
        if self._saved is None:
            os.environ.pop("GNUPGHOME", None)
        else:
            os.environ["GNUPGHOME"] = self._saved
