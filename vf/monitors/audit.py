"""Audit hook + file-object proxy: locate the *output phase* of an in-place signing
call (first write-mode open of / rename onto the target, first byte written) and
observe the target's content each time a write handle is closed."""
import builtins
import io
import os
import sys

_CURRENT = [None]
_INSTALLED = [False]

_WRITE_FLAGS = os.O_WRONLY | os.O_RDWR | os.O_APPEND | os.O_CREAT | os.O_TRUNC


def _hook(event, args):
    w = _CURRENT[0]
    if w is None:
        return
    try:
        if event == "open":
            path, mode, flags = args[0], args[1], args[2]
            if isinstance(path, (str, bytes, os.PathLike)) and w.is_target(path):
                writing = (isinstance(mode, str) and any(c in mode for c in "wax+")) or (
                    isinstance(flags, int) and flags & _WRITE_FLAGS)
                w.on_open(bool(writing), mode)
        elif event in ("os.rename", "os.replace"):
            if w.is_target(args[1]):
                w.on_output_event("rename-onto-target")
            elif w.is_target(args[0]):
                w.on_output_event("rename-target-away")
        elif event in ("os.remove", "os.unlink", "os.truncate", "shutil.move", "shutil.copyfile"):
            for a in args[:2]:
                if isinstance(a, (str, bytes, os.PathLike)) and w.is_target(a):
                    w.on_output_event(event)
    except Exception:
        pass


def install():
    if not _INSTALLED[0]:
        sys.addaudithook(_hook)
        _INSTALLED[0] = True


class _FileProxy:
    def __init__(self, real, watch):
        self._real = real
        self._watch = watch

    def write(self, data):
        self._watch.on_write(data)
        return self._real.write(data)

    def writelines(self, lines):
        lines = list(lines)
        for x in lines:
            self._watch.on_write(x)
        return self._real.writelines(lines)

    def truncate(self, *a):
        self._watch.on_write(b"<truncate>")
        return self._real.truncate(*a)

    def close(self):
        r = self._real.close()
        self._watch.on_close()
        return r

    def __enter__(self):
        self._real.__enter__()
        return self

    def __exit__(self, *a):
        r = self._real.__exit__(*a)
        self._watch.on_close()
        return r

    def __getattr__(self, name):
        return getattr(self._real, name)

    def __iter__(self):
        return iter(self._real)


class FileWatch:
    """with FileWatch(target, clock): ...   clock() -> current event index (census length)"""

    def __init__(self, target, clock=None, on_close_check=None):
        self.target = os.path.realpath(target)
        self.clock = clock or (lambda: -1)
        self.first_output_idx = None
        self.first_write_idx = None
        self.write_opens = 0
        self.read_opens = 0
        self.output_events = []
        self.written = []
        self.closes = 0
        self.on_close_check = on_close_check
        self.extra_at_open = None  # filled by caller-provided callable
        self.at_open = None
        self._saved_open = None
        self._saved_io_open = None

    def is_target(self, p):
        try:
            if isinstance(p, bytes):
                p = os.fsdecode(p)
            return os.path.realpath(os.fspath(p)) == self.target
        except Exception:
            return False

    def on_open(self, writing, mode):
        if writing:
            self.write_opens += 1
            self.on_output_event("open:%s" % (mode,))
        else:
            self.read_opens += 1

    def on_output_event(self, what):
        self.output_events.append((self.clock(), what))
        if self.first_output_idx is None:
            self.first_output_idx = self.clock()
            if self.at_open is not None:
                self.extra_at_open = self.at_open()

    def on_write(self, data):
        if self.first_write_idx is None:
            self.first_write_idx = self.clock()
        try:
            self.written.append(bytes(data) if not isinstance(data, str) else data.encode("utf-8", "surrogatepass"))
        except Exception:
            self.written.append(b"<unrepresentable>")

    def on_close(self):
        self.closes += 1
        if self.on_close_check is not None:
            self.on_close_check(self)

    def __enter__(self):
        install()
        _CURRENT[0] = self
        real_open = builtins.open
        watch = self

        def open_proxy(file, mode="r", *a, **k):
            f = real_open(file, mode, *a, **k)
            try:
                if isinstance(file, (str, bytes, os.PathLike)) and watch.is_target(file) and any(c in mode for c in "wax+"):
                    return _FileProxy(f, watch)
            except Exception:
                pass
            return f

        self._saved_open = real_open
        self._saved_io_open = io.open
        builtins.open = open_proxy
        io.open = open_proxy
        return self

    def __exit__(self, *a):
        builtins.open = self._saved_open
        io.open = self._saved_io_open
        _CURRENT[0] = None
