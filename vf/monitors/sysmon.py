"""sys.monitoring based monitors (source-free): step budget, failpoints (census +
injection at executed LINE / CALL events inside the library), yield injection."""
import os
import sys
import threading
import time

mon = sys.monitoring
EV = mon.events
TOOL = mon.DEBUGGER_ID


class StepBudgetExceeded(Exception):
    pass


class InjectedFault(Exception):
    """raised from a failpoint"""


class _Base:
    events = 0

    def __init__(self, pkg_dir):
        self.pkg_dir = pkg_dir
        self.active = False

    def in_pkg(self, code):
        return code.co_filename.startswith(self.pkg_dir)

    def __enter__(self):
        mon.use_tool_id(TOOL, "vf-sysmon")
        self.register()
        mon.set_events(TOOL, self.events)
        self.active = True
        return self

    def __exit__(self, *a):
        mon.set_events(TOOL, 0)
        for e in (EV.LINE, EV.CALL, EV.PY_START):
            mon.register_callback(TOOL, e, None)
        mon.free_tool_id(TOOL)
        mon.restart_events()
        self.active = False


class StepBudget(_Base):
    """counts LINE events inside the library per call; exceeding the budget raises
    StepBudgetExceeded into the call (termination by a logical measure)."""

    events = EV.LINE

    def __init__(self, pkg_dir, budget=2_000_000):
        super().__init__(pkg_dir)
        self.budget = budget
        self.steps = 0
        self.max_steps = 0
        self.total = 0

    def reset(self):
        self.max_steps = max(self.max_steps, self.steps)
        self.total += self.steps
        self.steps = 0

    def register(self):
        def on_line(code, line):
            if not code.co_filename.startswith(self.pkg_dir):
                return mon.DISABLE
            self.steps += 1
            if self.steps > self.budget:
                raise StepBudgetExceeded("more than %d line events in one call" % self.budget)

        mon.register_callback(TOOL, EV.LINE, on_line)


class Census(_Base):
    """records the ordered list of executed (file, func, line) LINE events and of CALL
    events (callee repr) inside the library"""

    events = EV.LINE | EV.CALL | EV.PY_START

    def __init__(self, pkg_dir):
        super().__init__(pkg_dir)
        self.trace = []  # ("L", file, func, line) | ("C", file, func, line, callee) | ("S", file, func, line, callee)

    def register(self):
        base = len(self.pkg_dir)

        def on_line(code, line):
            if not code.co_filename.startswith(self.pkg_dir):
                return mon.DISABLE
            self.trace.append(("L", code.co_filename[base:], code.co_name, line))

        def on_call(code, offset, callable_, arg0):
            if not code.co_filename.startswith(self.pkg_dir):
                return mon.DISABLE
            name = getattr(callable_, "__qualname__", None) or getattr(callable_, "__name__", None) or repr(callable_)[:40]
            self.trace.append(("C", code.co_filename[base:], code.co_name, -1, name))

        def on_start(code, offset):
            # entry of a Python function OUTSIDE the library called directly from library code.  CPython 3.12 raises
            # no CALL event for calls made with argument unpacking (f(*a, **k)); the callee's start still shows.
            caller = _outside_callee(code, self.pkg_dir)
            if caller is None:
                return
            self.trace.append(("S", caller.co_filename[base:], caller.co_name, -1, getattr(code, "co_qualname", code.co_name)))

        mon.register_callback(TOOL, EV.LINE, on_line)
        mon.register_callback(TOOL, EV.CALL, on_call)
        mon.register_callback(TOOL, EV.PY_START, on_start)


_OWN_DIR = os.path.dirname(os.path.dirname(os.path.abspath(__file__))) + os.sep


def _outside_callee(code, pkg_dir):
    """code object of the library frame that directly called the frame now starting, or None"""
    fn = code.co_filename
    if fn.startswith(pkg_dir) or fn.startswith(_OWN_DIR) or fn.startswith("<frozen importlib"):
        return None  # (first-time imports are not part of the procedure's event sequence)
    try:
        f = sys._getframe(2).f_back  # on_start <- started frame <- caller
    except ValueError:
        return None
    if f is None or not f.f_code.co_filename.startswith(pkg_dir):
        return None
    return f.f_code


class FailAt(_Base):
    """raises InjectedFault at the index-th LINE (or CALL) event inside the library"""

    def __init__(self, pkg_dir, index, kind="L", skip_callees=(), exc=None):
        super().__init__(pkg_dir)
        self.exc = exc or InjectedFault  # exception CLASS raised at the failpoint
        self.index = index
        self.kind = kind
        self.n = 0
        self.fired = False
        self.where = None
        self.event = None
        self.events = EV.LINE | EV.CALL | EV.PY_START
        self.skip_callees = skip_callees

    def register(self):
        base = len(self.pkg_dir)

        def on_line(code, line):
            if not code.co_filename.startswith(self.pkg_dir):
                return mon.DISABLE
            i = self.n
            self.n += 1
            if self.kind == "L" and i == self.index and not self.fired:
                self.fired = True
                self.where = "%s:%s:%d" % (code.co_filename[base:], code.co_name, line)
                self.event = ("L", code.co_filename[base:], code.co_name, line)
                raise self.exc("injected at line event %d (%s)" % (i, self.where))

        def on_call(code, offset, callable_, arg0):
            if not code.co_filename.startswith(self.pkg_dir):
                return mon.DISABLE
            i = self.n
            self.n += 1
            if self.kind == "C" and i == self.index and not self.fired:
                name = getattr(callable_, "__qualname__", None) or getattr(callable_, "__name__", None) or repr(callable_)[:40]
                self.fired = True
                self.where = "%s:%s:call %s" % (code.co_filename[base:], code.co_name, name)
                self.event = ("C", code.co_filename[base:], code.co_name, -1, name)
                raise self.exc("injected before call event %d (%s)" % (i, self.where))

        def on_start(code, offset):
            caller = _outside_callee(code, self.pkg_dir)
            if caller is None:
                return
            i = self.n
            self.n += 1
            if self.kind == "S" and i == self.index and not self.fired:
                self.fired = True
                self.where = "%s:%s:entry of %s" % (caller.co_filename[base:], caller.co_name, getattr(code, "co_qualname", code.co_name))
                self.event = ("S", caller.co_filename[base:], caller.co_name, -1, getattr(code, "co_qualname", code.co_name))
                raise self.exc("injected at callee entry event %d (%s)" % (i, self.where))

        mon.register_callback(TOOL, EV.LINE, on_line)
        mon.register_callback(TOOL, EV.CALL, on_call)
        mon.register_callback(TOOL, EV.PY_START, on_start)


class YieldInjector(_Base):
    """LINE callback in library code: with seeded probability sleep(0) (forces a GIL
    hand-off) and log context switches observed *inside* the library: consecutive line
    events from different threads."""

    events = EV.LINE

    def __init__(self, pkg_dir, rng, prob=0.05):
        super().__init__(pkg_dir)
        self.rng = rng
        self.prob = prob
        self.lock = threading.Lock()
        self.last = None  # (thread id, file, line)
        self.switches = 0
        self.switch_points = set()
        self.func_pairs = set()
        self.line_events = 0
        self._old_interval = None

    def register(self):
        base = len(self.pkg_dir)
        get_ident = threading.get_ident

        def on_line(code, line):
            if not code.co_filename.startswith(self.pkg_dir):
                return mon.DISABLE
            tid = get_ident()
            with self.lock:
                self.line_events += 1
                last = self.last
                here = (tid, code.co_name, line)
                if last is not None and last[0] != tid:
                    self.switches += 1
                    if len(self.switch_points) < 20000:
                        self.switch_points.add((last[1], last[2], code.co_name, line))
                    self.func_pairs.add((last[1], code.co_name))
                self.last = here
                doit = self.rng.random() < self.prob
            if doit:
                time.sleep(0)

        mon.register_callback(TOOL, EV.LINE, on_line)

    def __enter__(self):
        self._old_interval = sys.getswitchinterval()
        sys.setswitchinterval(1e-6)
        return super().__enter__()

    def __exit__(self, *a):
        super().__exit__(*a)
        sys.setswitchinterval(self._old_interval)
