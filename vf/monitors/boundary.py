"""Boundary recorder: structural fingerprints of arguments (before/after a call) and
the outcome of a call (return / raise, exception class, raise site in the library).

The fingerprint is type-tagged, keeps list order and dict insertion order,
distinguishes 1 / 1.0 / True, treats all NaNs as one value and follows aliasing by
object identity, so in-place mutation, re-ordering and newly introduced aliasing are
all visible.
"""
import hashlib
import os
import re
import sys
import traceback


def fingerprint(obj):
    h = hashlib.sha256()
    seen = {}

    def w(s):
        h.update(s.encode("utf-8", "surrogatepass") if isinstance(s, str) else s)

    def rec(o, depth):
        if depth > 400:
            w("<deep>")
            return
        t = type(o)
        if o is None:
            w("N;")
        elif t is bool:
            w("b1;" if o else "b0;")
        elif t is int:
            w("i%d;" % o if abs(o) < 10**300 else "I%s;" % hex(o))
        elif t is float:
            w("fnan;" if o != o else "f%s;" % float.hex(o))
        elif t is str:
            w("s%d:" % len(o))
            w(o)
            w(";")
        elif t in (bytes, bytearray):
            w("y%d:" % len(o))
            w(bytes(o))
            w(";")
        elif t in (list, tuple, dict) or isinstance(o, (list, tuple, dict)):
            i = id(o)
            if i in seen:
                w("@%d;" % seen[i])
                return
            seen[i] = len(seen)
            if isinstance(o, dict):
                w("d<%s>%d{" % (t.__name__, len(o)))
                for k, v in o.items():
                    rec(k, depth + 1)
                    w("=")
                    rec(v, depth + 1)
                w("}")
            else:
                w("%s<%s>%d[" % ("l" if isinstance(o, list) else "t", t.__name__, len(o)))
                for v in o:
                    rec(v, depth + 1)
                w("]")
        elif t in (set, frozenset):
            w("S%d{" % len(o))
            for x in sorted(fingerprint(e) for e in o):
                w(x)
            w("}")
        else:
            # opaque objects: identity-free tag so that equal runs compare equal
            try:
                r = repr(o)
            except Exception:
                r = "<unrepr>"
            r = re.sub(r"0x[0-9a-fA-F]+", "0x", r)
            w("o<%s>%s;" % (t.__name__, r[:200]))

    rec(obj, 0)
    return h.hexdigest()[:32]


def value_fingerprint(obj):
    """JSON-*value* fingerprint: like fingerprint() but insensitive to dict insertion
    order and aliasing (two objects denote the same JSON value iff equal here).
    Distinguishes 1 / 1.0 / True."""
    h = hashlib.sha256()

    def w(s):
        h.update(s.encode("utf-8", "surrogatepass") if isinstance(s, str) else s)

    def rec(o, depth):
        t = type(o)
        if o is None:
            w("N;")
        elif t is bool:
            w("b1;" if o else "b0;")
        elif t is int:
            w("i%s;" % hex(o))
        elif t is float:
            w("fnan;" if o != o else "f%s;" % float.hex(o))
        elif t is str:
            w("s%d:" % len(o))
            w(o)
            w(";")
        elif t is list:
            w("l%d[" % len(o))
            for v in o:
                rec(v, depth + 1)
            w("]")
        elif t is dict:
            w("d%d{" % len(o))
            for k in sorted(o):
                rec(k, depth + 1)
                w("=")
                rec(o[k], depth + 1)
            w("}")
        else:
            w("o<%s>;" % t.__name__)

    rec(obj, 0)
    return h.hexdigest()[:32]


_NUM = re.compile(r"[0-9a-fA-F]{8,}|\d+")


def exc_site(exc, repo_pkg_dir):
    """innermost traceback frame inside the library: 'file.py:function'"""
    site = None
    tb = exc.__traceback__
    while tb is not None:
        fn = tb.tb_frame.f_code.co_filename
        if fn.startswith(repo_pkg_dir):
            site = "%s:%s" % (os.path.basename(fn), tb.tb_frame.f_code.co_name)
        tb = tb.tb_next
    return site


def exc_family(exc, lib):
    """classify an exception into the documented families"""
    common = lib.common
    if isinstance(exc, common.SignatureError):
        return "SignatureError"
    if isinstance(exc, common.UnknownRoleError):
        return "UnknownRoleError"
    if isinstance(exc, common.MetadataVerificationError):
        return "MetadataVerificationError"
    if isinstance(exc, common.CCT_Error):
        return "CCT_Error"
    if isinstance(exc, TypeError):
        return "TypeError"
    if isinstance(exc, ValueError):
        return "ValueError"
    try:
        import cryptography.exceptions

        if isinstance(exc, cryptography.exceptions.InvalidSignature):
            return "InvalidSignature"
    except Exception:
        pass
    return "OTHER:" + type(exc).__name__


class Outcome:
    __slots__ = ("kind", "value", "exc", "family", "cls", "site", "msg")

    def __init__(self):
        self.kind = None
        self.value = None
        self.exc = None
        self.family = None
        self.cls = None
        self.site = None
        self.msg = None

    @property
    def accepted(self):
        return self.kind == "return"

    def brief(self):
        if self.kind == "return":
            return "return"
        return "raise %s@%s" % (self.cls, self.site)

    def as_json(self):
        if self.kind == "return":
            v = self.value
            return {"kind": "return", "value": repr(v)[:200]}
        return {
            "kind": "raise",
            "class": self.cls,
            "family": self.family,
            "site": self.site,
            "msg": (self.msg or "")[:300],
        }


def call(lib, fn, *args, **kwargs):
    """invoke fn and record its outcome (a normal return of a verifier IS an
    acceptance whatever the value)."""
    o = Outcome()
    try:
        o.value = fn(*args, **kwargs)
        o.kind = "return"
    except BaseException as e:  # noqa: BLE001 - we classify everything
        if isinstance(e, (KeyboardInterrupt, SystemExit, MemoryError)):
            raise
        o.kind = "raise"
        o.exc = e
        o.cls = type(e).__name__
        o.family = exc_family(e, lib)
        o.site = exc_site(e, lib.pkg_dir)
        try:
            o.msg = str(e)
        except Exception:
            o.msg = "<unprintable>"
    return o


DOCUMENTED = {
    "SignatureError",
    "UnknownRoleError",
    "MetadataVerificationError",
    "CCT_Error",
    "TypeError",
    "ValueError",
}


def mechanism(prefix, fn_name, expected, outcome):
    """mechanism key used by the known-findings classifier: derived from the
    witness' structure, never from case hashes or random values."""
    if outcome.kind == "return":
        obs = "return"
    else:
        obs = "%s@%s" % (outcome.cls, outcome.site)
    return "%s/%s/expected=%s/observed=%s" % (prefix, fn_name, expected, obs)
