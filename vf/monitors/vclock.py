"""Virtual clock for the library under test.

The library reads "now" through names bound in ITS OWN module namespaces (``datetime`` the class, ``datetime`` the
module, ``time`` the module).  ``frozen(lib, instant)`` rebinds exactly those names, for the duration of a ``with`` block,
to stand-ins whose now()/utcnow()/today()/time()/time_ns()/gmtime()/localtime() answer with a chosen instant - so the
harness can put the clock ON a whole second, one microsecond before a second / a day / a year ends, on a leap day, ... -
instants a real clock offers about once in a million readings.  Everything else on the stand-ins is the real thing.
Nothing outside the library's namespaces is touched (the interpreter's own datetime/time are unchanged), and the bindings
are restored on exit.  ``reads`` counts how often the stand-in clock was consulted: zero means the library read its
time some other way and the run says nothing (inconclusive, never a verdict).
"""
import contextlib
import datetime as _dt
import sys
import time as _time
import types


class Clock:
    def __init__(self, instant):
        assert instant.tzinfo is not None
        self.instant = instant
        self.reads = 0
        self.step = _dt.timedelta(0)  # the clock may advance by this much per reading

    def read(self):
        self.reads += 1
        now = self.instant
        self.instant = self.instant + self.step
        return now

    def epoch(self):
        return self.read().timestamp()


def _datetime_class(clock):
    class datetime(_dt.datetime):  # noqa: N801 - same name as the class it stands in for
        @classmethod
        def utcnow(cls):
            n = clock.read().astimezone(_dt.timezone.utc)
            return cls(n.year, n.month, n.day, n.hour, n.minute, n.second, n.microsecond)

        @classmethod
        def now(cls, tz=None):
            n = clock.read()
            n = n.astimezone(tz) if tz is not None else n.astimezone()
            return cls(n.year, n.month, n.day, n.hour, n.minute, n.second, n.microsecond, tzinfo=n.tzinfo if tz is not None else None)

        @classmethod
        def today(cls):
            return cls.now()

    datetime.__module__ = "datetime"
    datetime.__qualname__ = "datetime"
    return datetime


def _date_class(clock):
    class date(_dt.date):  # noqa: N801
        @classmethod
        def today(cls):
            n = clock.read().astimezone()
            return cls(n.year, n.month, n.day)

    return date


def _module_proxy(real, overrides):
    m = types.ModuleType(real.__name__)
    m.__dict__.update({k: v for k, v in real.__dict__.items() if not k.startswith("__")})
    m.__dict__.update(overrides)
    return m


@contextlib.contextmanager
def frozen(lib, instant, step=None):
    clock = Clock(instant)
    if step is not None:
        clock.step = step
    dtc = _datetime_class(clock)
    dc = _date_class(clock)
    dtm = _module_proxy(_dt, {"datetime": dtc, "date": dc})

    def _gm(secs=None):
        return _time.gmtime(clock.epoch() if secs is None else secs)

    def _loc(secs=None):
        return _time.localtime(clock.epoch() if secs is None else secs)

    tm = _module_proxy(_time, {
        "time": clock.epoch, "time_ns": lambda: int(clock.epoch() * 10**9), "gmtime": _gm, "localtime": _loc,
        "strftime": lambda fmt, t=None: _time.strftime(fmt, _loc() if t is None else t),
    })
    swapped = []
    pkg = lib.common.__name__.rsplit(".", 1)[0]
    for name, mod in list(sys.modules.items()):
        if mod is None or not (name == pkg or name.startswith(pkg + ".")):
            continue
        f = getattr(mod, "__file__", None) or ""
        if not f.startswith(str(lib.pkg_dir)):
            continue
        for attr, val in list(vars(mod).items()):
            new = None
            if val is _dt.datetime:
                new = dtc
            elif val is _dt.date:
                new = dc
            elif val is _dt:
                new = dtm
            elif val is _time:
                new = tm
            elif val is _time.time:
                new = clock.epoch
            elif val is _time.gmtime:
                new = _gm
            if new is not None:
                swapped.append((mod, attr, val))
                setattr(mod, attr, new)
    try:
        yield clock
    finally:
        for mod, attr, val in swapped:
            setattr(mod, attr, val)
