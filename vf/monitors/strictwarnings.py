"""Imported BEFORE the library in one configuration of the matrices: an unrelated module that
escalates warnings to errors process-wide (as test runners and strict applications do)."""
import warnings

warnings.simplefilter("error", UserWarning)
warnings.simplefilter("error", RuntimeWarning)
