"""Inner probes, attached from outside by rebinding module globals (which the library
resolves at call time).  Optional observability: an unreached probe is never a
violation, and every probe keeps a hit counter."""
import sys

from cryptography.hazmat.primitives.asymmetric import ed25519 as _c_ed


class _PubProxy:
    """stands in for an Ed25519PublicKey; logs (key, sig, data, ok) of every verify"""

    def __init__(self, real, probe, realcls):
        self._real = real
        self._probe = probe
        self._realcls = realcls

    def verify(self, signature, data):
        kb = self._realcls.to_bytes(self._real)
        ok = False
        try:
            self._real.verify(signature, data)
            ok = True
        finally:
            self._probe._log(kb, bytes(signature), bytes(data), ok)

    def public_bytes(self, *a, **k):
        return self._real.public_bytes(*a, **k)

    def public_bytes_raw(self):
        return self._real.public_bytes_raw()

    def __getattr__(self, name):
        return getattr(self._real, name)


_c_ed.Ed25519PublicKey.register(_PubProxy)


class PrimitiveProbe:
    """with PrimitiveProbe(lib): ... ; events = list of dict(key, sig, data, ok)"""

    def __init__(self, lib, module="authentication"):
        self.lib = lib
        self.modname = module
        self.events = []
        self.total = 0
        self._saved = None

    def _log(self, key, sig, data, ok):
        self.total += 1
        self.events.append({"key": key, "sig": sig, "data": data, "ok": ok})

    def __enter__(self):
        mod = getattr(self.lib, self.modname)
        real = getattr(mod, "PublicKey", None)
        if real is None:
            self._saved = None
            return self
        probe = self

        class PublicKeyProbe:
            @classmethod
            def from_hex(cls, h):
                return _PubProxy(real.from_hex(h), probe, real)

            @classmethod
            def from_bytes(cls, b):
                return _PubProxy(real.from_bytes(b), probe, real)

            @classmethod
            def to_bytes(cls, k):
                return real.to_bytes(k._real if isinstance(k, _PubProxy) else k)

            @classmethod
            def to_hex(cls, k):
                return real.to_hex(k._real if isinstance(k, _PubProxy) else k)

            @classmethod
            def is_equivalent_to(cls, a, b):
                a = a._real if isinstance(a, _PubProxy) else a
                b = b._real if isinstance(b, _PubProxy) else b
                return real.is_equivalent_to(a, b)

        self._saved = (mod, real)
        mod.PublicKey = PublicKeyProbe
        return self

    def __exit__(self, *a):
        if self._saved:
            mod, real = self._saved
            mod.PublicKey = real
            self._saved = None


class _PrivProxy:
    def __init__(self, real, probe, realcls):
        self._real = real
        self._probe = probe
        self._realcls = realcls

    def sign(self, data):
        sig = self._real.sign(data)
        self._probe._log(self._realcls.to_bytes(self._real), bytes(sig), bytes(data))
        return sig

    def public_key(self):
        return self._real.public_key()

    def private_bytes(self, *a, **k):
        return self._real.private_bytes(*a, **k)

    def __getattr__(self, name):
        return getattr(self._real, name)


_c_ed.Ed25519PrivateKey.register(_PrivProxy)


class SignProbe:
    """wraps a real private key object so that the bytes handed to the signing
    primitive are logged"""

    def __init__(self, lib):
        self.lib = lib
        self.events = []
        self.total = 0

    def _log(self, seed, sig, data):
        self.total += 1
        self.events.append({"seed": seed, "sig": sig, "data": data})

    def wrap(self, real_private):
        return _PrivProxy(real_private, self, self.lib.common.PrivateKey)


class CallCounter:
    """recording forwarder for a module-level function: counts calls, optionally
    keeps (args, result)"""

    def __init__(self, mod, name, keep=False):
        self.mod = mod
        self.name = name
        self.calls = 0
        self.keep = keep
        self.log = []
        self._real = None

    def __enter__(self):
        self._real = getattr(self.mod, self.name, None)
        if self._real is None:
            return self
        real = self._real
        me = self

        def fwd(*a, **k):
            me.calls += 1
            r = real(*a, **k)
            if me.keep:
                me.log.append((a, k, r))
            return r

        fwd.__wrapped__ = real
        setattr(self.mod, self.name, fwd)
        return self

    def __exit__(self, *a):
        if self._real is not None:
            setattr(self.mod, self.name, self._real)


class LocalsProbe:
    """sys.monitoring PY_RETURN / PY_UNWIND on one function: captures a named local
    at exit (the set of counted signers in verify_signable)."""

    TOOL = 3  # sys.monitoring.PROFILER_ID + 1 free slot on 3.12 (ids 0..5)

    def __init__(self, func, local_name):
        self.code = getattr(func, "__code__", None)
        self.local = local_name
        self.captures = []
        self.hits = 0
        self.active = False

    def __enter__(self):
        if self.code is None or not hasattr(sys, "monitoring"):
            return self
        mon = sys.monitoring
        try:
            mon.use_tool_id(self.TOOL, "vf-locals")
        except ValueError:
            return self
        ev = mon.events

        def on_exit(code, offset, retval_or_exc):
            if code is self.code:
                self.hits += 1
                fr = sys._getframe(1)
                v = fr.f_locals.get(self.local, None)
                try:
                    self.captures.append(list(v) if v is not None else None)
                except TypeError:
                    self.captures.append(None)

        mon.register_callback(self.TOOL, ev.PY_RETURN, on_exit)
        mon.register_callback(self.TOOL, ev.PY_UNWIND, on_exit)
        mon.set_local_events(self.TOOL, self.code, ev.PY_RETURN)
        mon.set_events(self.TOOL, ev.PY_UNWIND)
        self.active = True
        return self

    def __exit__(self, *a):
        if self.active:
            mon = sys.monitoring
            mon.set_events(self.TOOL, 0)
            mon.set_local_events(self.TOOL, self.code, 0)
            mon.register_callback(self.TOOL, mon.events.PY_RETURN, None)
            mon.register_callback(self.TOOL, mon.events.PY_UNWIND, None)
            mon.free_tool_id(self.TOOL)
            self.active = False
