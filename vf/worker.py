"""Shard worker: `python -m vf.worker <spec.json> <out.json>`.

Runs one shard of one property in a fresh interpreter, with the library imported from
the working tree, a strict stdout sink and faulthandler enabled.
"""
import faulthandler
import importlib
import json
import os
import sys
import time
import traceback


def main():
    spec_path, out_path = sys.argv[1], sys.argv[2]
    faulthandler.enable()
    with open(spec_path) as f:
        spec = json.load(f)
    # bootstrap paths ourselves so that -I / -E configurations still work
    verif_dir = os.path.dirname(os.path.dirname(os.path.abspath(__file__)))
    if verif_dir not in sys.path:
        sys.path.insert(0, verif_dir)
    if spec.get("cct_repo"):
        os.environ["CCT_REPO"] = spec["cct_repo"]
    if spec.get("shim"):
        sys.path.insert(0, os.path.join(verif_dir, "vf", "shims"))

    from vf import lib as vlib
    from vf.monitors.sink import Sink
    from vf.rec import Recorder

    rec = Recorder(spec["prop"])
    t0 = time.time()
    # process-level configuration overlays (no property may depend on them)
    if spec.get("umask") is not None:
        os.umask(int(spec["umask"]))
    if spec.get("enter_cwd") and spec.get("scratch"):
        d = os.path.join(spec["scratch"], "cwd")
        os.makedirs(d, exist_ok=True)
        os.chdir(d)
    if spec.get("stdin") == "closed":
        try:
            sys.stdin.close()  # Python-level stdin closed; descriptor 0 re-pointed at /dev/null for child processes
            fd = os.open(os.devnull, os.O_RDONLY)
            if fd != 0:
                os.dup2(fd, 0)
                os.close(fd)
        except OSError:
            pass
    real_stdout = sys.stdout
    sink = None
    try:
        pre = spec.get("preimport", [])
        lib = vlib.load(preimport=pre)
        enc = spec.get("stdout_encoding", "utf-8")
        err = spec.get("stdout_errors", "strict")
        sink = Sink(enc, err).install()
        mod = importlib.import_module("vf.props." + spec["prop"].lower())
        # member names the library's own code mentions: offered as extra members by the document generators
        from vf.engines import delegation as _deleg, rootchain as _rootchain
        from vf.gen import vocab as _vocab

        _names = _vocab.learn(lib.pkg_dir)["names"]
        _deleg.EXTRA_NAMES = _rootchain.EXTRA_NAMES = _names
        if not spec.get("no_noise") and not getattr(mod, "NO_BACKGROUND_NOISE", False):
            # unrelated library activity between judged cases of EVERY property (own random stream, own directory)
            import random

            from vf.engines import noise

            nrng = random.Random(spec.get("seed", 0) * 31 + 7)
            ndir = os.path.join(spec.get("scratch") or ".", "background-noise")
            os.makedirs(ndir, exist_ok=True)
            rec.ticker = lambda: noise.tick(lib, nrng, ndir)
        mod.run_shard(spec, rec, lib)
    except BaseException as e:  # noqa: BLE001
        rec.inconclusive_because(
            "worker crashed: %s: %s" % (type(e).__name__, str(e)[:300])
        )
        rec.extra["traceback"] = traceback.format_exc()[-3000:]
    finally:
        if sink is not None:
            sink.uninstall()
        sys.stdout = real_stdout
    d = rec.dump()
    d["wall_s"] = time.time() - t0
    tmp = out_path + ".tmp"
    with open(tmp, "w") as f:
        json.dump(d, f)
    os.replace(tmp, out_path)


if __name__ == "__main__":
    main()
