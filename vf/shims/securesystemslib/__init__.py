"""GnuPG-backed stand-in for the parts of securesystemslib that conda-content-trust's
root_signing module uses.  Harness code (part of the trusted base of the GnuPG
sub-workloads): drives the real `gpg` binary in $GNUPGHOME and parses the OpenPGP v4
signature / public-key packets it emits."""
__version__ = "0.0-vf-shim"
