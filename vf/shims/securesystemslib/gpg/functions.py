import hashlib
import os
import subprocess

from .exceptions import CommandError, KeyNotFoundError, PacketParsingError

GPG = os.environ.get("VF_GPG_BIN", "gpg")


def _run(args, data=b""):
    cmd = [GPG, "--batch", "--no-tty", "--pinentry-mode", "loopback", "--passphrase", ""] + args
    p = subprocess.run(cmd, input=data, stdout=subprocess.PIPE, stderr=subprocess.PIPE, timeout=120)
    if p.returncode != 0:
        raise CommandError("gpg failed (%d): %s" % (p.returncode, p.stderr.decode("utf-8", "replace")[-400:]))
    return p.stdout


def _packets(buf):
    """yield (tag, body) for each OpenPGP packet"""
    i = 0
    n = len(buf)
    while i < n:
        h = buf[i]
        if not h & 0x80:
            raise PacketParsingError("bad packet header")
        i += 1
        if h & 0x40:  # new format
            tag = h & 0x3F
            l0 = buf[i]
            i += 1
            if l0 < 192:
                ln = l0
            elif l0 < 224:
                ln = ((l0 - 192) << 8) + buf[i] + 192
                i += 1
            elif l0 == 255:
                ln = int.from_bytes(buf[i:i + 4], "big")
                i += 4
            else:
                raise PacketParsingError("partial lengths unsupported")
        else:
            tag = (h >> 2) & 0xF
            lt = h & 3
            if lt == 0:
                ln = buf[i]
                i += 1
            elif lt == 1:
                ln = int.from_bytes(buf[i:i + 2], "big")
                i += 2
            elif lt == 2:
                ln = int.from_bytes(buf[i:i + 4], "big")
                i += 4
            else:
                ln = n - i
        yield tag, buf[i:i + ln]
        i += ln


def _mpi(buf, i):
    bits = int.from_bytes(buf[i:i + 2], "big")
    nb = (bits + 7) // 8
    return buf[i + 2:i + 2 + nb], i + 2 + nb


def _subpackets(buf):
    i = 0
    while i < len(buf):
        l0 = buf[i]
        i += 1
        if l0 < 192:
            ln = l0
        elif l0 < 255:
            ln = ((l0 - 192) << 8) + buf[i] + 192
            i += 1
        else:
            ln = int.from_bytes(buf[i:i + 4], "big")
            i += 4
        yield buf[i] & 0x7F, buf[i + 1:i + ln]
        i += ln


def parse_signature(sigbytes):
    for tag, body in _packets(sigbytes):
        if tag != 2:
            continue
        if body[0] != 4:
            raise PacketParsingError("only v4 signatures supported")
        pubalgo, hashalgo = body[2], body[3]
        if pubalgo != 22:
            raise PacketParsingError("not an EdDSA signature (algo %d)" % pubalgo)
        if hashalgo != 8:
            raise PacketParsingError("not SHA-256 (hash algo %d)" % hashalgo)
        hl = int.from_bytes(body[4:6], "big")
        hashed = body[6:6 + hl]
        other_headers = body[:6 + hl]
        j = 6 + hl
        ul = int.from_bytes(body[j:j + 2], "big")
        unhashed = body[j + 2:j + 2 + ul]
        j += 2 + ul
        j += 2  # left 16 bits of the hash
        r, j = _mpi(body, j)
        s, j = _mpi(body, j)
        keyid = None
        for t, d in list(_subpackets(hashed)) + list(_subpackets(unhashed)):
            if t == 33:  # issuer fingerprint: version + 20 bytes
                keyid = d[1:21].hex()
        return {
            "keyid": keyid,
            "other_headers": other_headers.hex(),
            "signature": (r.rjust(32, b"\x00") + s.rjust(32, b"\x00")).hex(),
        }
    raise PacketParsingError("no signature packet found")


def create_signature(content, keyid=None, homedir=None):
    args = []
    if homedir:
        args += ["--homedir", homedir]
    if keyid:
        args += ["--local-user", keyid]
    args += ["--digest-algo", "SHA256", "--detach-sign", "--output", "-"]
    out = _run(args, bytes(content))
    sig = parse_signature(out)
    if keyid and sig["keyid"] is None:
        sig["keyid"] = keyid.lower()
    return sig


def export_pubkey(keyid, homedir=None):
    args = []
    if homedir:
        args += ["--homedir", homedir]
    out = _run(args + ["--export", keyid])
    if not out:
        raise KeyNotFoundError("no public key %r in keyring" % keyid)
    want = keyid.lower()
    found = []
    for tag, body in _packets(out):
        if tag not in (6, 14):
            continue
        if body[0] != 4:
            continue
        fpr = hashlib.sha1(b"\x99" + len(body).to_bytes(2, "big") + body).hexdigest()
        created = int.from_bytes(body[1:5], "big")
        algo = body[5]
        q = None
        if algo == 22:
            ol = body[6]
            j = 7 + ol
            m, j = _mpi(body, j)
            if m[:1] == b"\x40" and len(m) == 33:
                q = m[1:].hex()
        found.append((fpr, created, algo, q))
    for fpr, created, algo, q in found:
        if fpr == want or fpr.endswith(want):
            if q is None:
                raise PacketParsingError("key %s is not an ed25519 key" % keyid)
            return {
                "type": "eddsa",
                "method": "pgp+eddsa-ed25519",
                "hashes": ["pgp+SHA2"],
                "creation_time": created,
                "keyid": fpr,
                "keyval": {"private": "", "public": {"q": q}},
            }
    raise KeyNotFoundError("fingerprint %r not among exported keys %r" % (keyid, [f[0] for f in found]))
