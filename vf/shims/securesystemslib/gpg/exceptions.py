class CommandError(Exception):
    pass


class KeyNotFoundError(Exception):
    pass


class PacketParsingError(Exception):
    pass
