"""Unrelated library activity interleaved between judged cases.

Every judged verdict must depend on the arguments of its own call only; so any amount
of *other* activity in the same process (building metadata of odd types, loading keys,
signing, verifying, failing serialisations, file round trips) between two judged calls
must not change them.  tick() performs a few such calls with seeded random, mostly
valid and sometimes failing, inputs.  All outcomes are ignored (this is noise, not an
oracle); exceptions are swallowed.
"""
import os

from ..gen import jsonvals, keys as gkeys, metadata as gmd
from ..refs import canonjson, ed25519


N_BRANCHES = 25


def _flags(f):
    """names of keyword parameters of f that default to False (options a caller may switch on)"""
    import inspect

    try:
        return [p.name for p in inspect.signature(f).parameters.values() if p.default is False]
    except (TypeError, ValueError):
        return []


OPTIONS_SEEN = set()


def _with_each_option_on(f, *a, **k):
    """call f once per switchable option, with that option on (outcomes ignored like all noise): a call made with an option
    on must leave nothing behind for later calls made without it"""
    import copy

    for name in _flags(f):
        OPTIONS_SEEN.add("%s(%s=True)" % (getattr(f, "__name__", "?"), name))
        try:
            f(*copy.deepcopy(a), **dict(copy.deepcopy(k), **{name: True}))
        except Exception:  # noqa: BLE001
            pass


def provoke(lib, rng, scratch=None):
    """every kind of unrelated activity once (deterministic coverage of the repertoire)"""
    for w in range(N_BRANCHES):
        tick(lib, rng, scratch, n=1, force=w)


def tick(lib, rng, scratch=None, n=None, force=None):
    C, S, A, M = lib.common, lib.signing, lib.authentication, lib.metadata_construction
    for _ in range(n or rng.randint(1, 3)):
        k = gkeys.key(rng.randrange(12))
        what = rng.randrange(N_BRANCHES) if force is None else force
        try:
            if what == 0:
                C.PublicKey.from_hex(k.hex)
                C.PrivateKey.from_hex(k.seed.hex())
            elif what == 1:
                env = S.wrap_as_signable(jsonvals.rand_payload(rng))
                S.sign_signable(env, C.PrivateKey.from_bytes(k.seed))
                A.verify_signable(env, [k.hex], 1)
            elif what == 2:
                M.build_delegating_metadata(rng.choice(["mirror_mgr", "pkg_mgr", "root", "key_mgr", "x", ""]),
                                            {rng.choice(["a", "root", ""]): {"pubkeys": [k.hex], "threshold": 1}},
                                            version=rng.randint(1, 5), timestamp="2021-01-01T00:00:00Z", expiration="2031-01-01T00:00:00Z")
            elif what == 3:
                M.build_delegating_metadata("key_mgr", {"x": {"pubkeys": ["not a key"], "threshold": 0}})
            elif what == 4:
                M.build_root_metadata(rng.randint(1, 9), [k.hex, gkeys.key(13).hex], rng.randint(1, 2), [gkeys.key(14).hex], 1)
            elif what == 5:
                C.canonserialize({"a": [1, {"n": 10**5000}]})
            elif what == 6:
                C.canonserialize(jsonvals.deep(3000))
            elif what == 7:
                C.canonserialize({"z": 1, "a": [jsonvals.rand_scalar(rng), {"y": 1, "b": 2}]})
            elif what == 8 and scratch:
                fn = os.path.join(scratch, "noise%d.json" % rng.randrange(3))
                v = {"signatures": {}, "signed": gmd.delegating(rng.choice(["root", "key_mgr"]), {}, version=rng.randint(1, 3))}
                C.write_metadata_to_file(v, fn)
                got = C.load_metadata_from_file(fn)
                got["signed"]["version"] = 99  # caller edits its own loaded copy
            elif what == 9:
                md = gmd.root_md(1, [k], 1, [gkeys.key(13)], 1)
                env = gmd.sign_env(gmd.envelope(md), [k], True, rng)
                A.verify_signable(env, [k.hex], 1, gpg=True)
                A.verify_root(env, env)
            elif what == 10:
                C.checkformat_delegating_metadata({"signatures": {"x": 1}, "signed": 5})
                C.checkformat_hex_key(k.hex.upper())
            elif what == 11:
                # an artifact-like (non-delegating) payload checked against a pkg_mgr delegation: accepted ...
                km = gmd.envelope(gmd.delegating("key_mgr", {"pkg_mgr": gmd.delegation([k], 1)}))
                env = S.wrap_as_signable({"name": "pkg", "depends": ["x >=%d" % rng.randrange(9)], "size": rng.randrange(10**6)})
                S.sign_signable(env, C.PrivateKey.from_bytes(k.seed))
                A.verify_delegation("pkg_mgr", env, km)
            elif what == 12:
                # ... and rejected (unsigned scalar / list payloads, unknown role, wrong keys)
                km = gmd.envelope(gmd.delegating("key_mgr", {"pkg_mgr": gmd.delegation([gkeys.key(13)], 1)}))
                env = S.wrap_as_signable(rng.choice([None, 5, "text", [1, 2], {"type": "root"}, {"type": "key_mgr", "delegations": 3}]))
                if rng.random() < 0.5:
                    S.sign_signable(env, C.PrivateKey.from_bytes(k.seed))
                A.verify_delegation(rng.choice(["pkg_mgr", "nobody", "root"]), env, km)
            elif what == 13:
                r1 = gmd.envelope(gmd.root_md(1, [k], 1, [gkeys.key(13)], 1))
                r3 = gmd.envelope(gmd.root_md(3, [k], 1, [gkeys.key(13)], 1))
                A.verify_root(r1, r3)  # version jump, unsigned: fails
            elif what == 14:
                M.build_root_metadata(rng.choice([0, -1, "1", None, 2.5]), [k.hex], 1, [k.hex], 1)  # rejected arguments
            elif what == 15:
                M.build_root_metadata(1, [k.hex], rng.choice([0, 2, "1"]), [k.hex, "zz"], 1)
            elif what == 16 and scratch:
                fn = os.path.join(scratch, "noise-repodata%d.json" % rng.randrange(2))
                with open(fn, "w") as f:
                    f.write(rng.choice(['{"packages": {"a-1-0.tar.bz2": {"name": "a"}}}', '{"info": 1}', "", '{"packages": 3}']))
                S.sign_all_in_repodata(fn, rng.choice([k.seed.hex(), "nothex", k.seed.hex()[:10]]))
            elif what == 17 and scratch:
                name = os.path.join(scratch, "noisekey%d" % rng.randrange(2))
                M.gen_and_write_keys(name)
                C.keyfiles_to_keys(name)
                C.keyfiles_to_bytes(os.path.join(scratch, "no-such-key"))
            elif what == 18:
                for v in ({"signature": "ab" * 64}, {"signature": "ab" * 64, "other_headers": "04", "see_also": "0" * 40},
                          {"signature": "AB" * 64}, {"signature": 5}, [], {"signature": "ab" * 64, "extra": 1}):
                    for f in (C.is_signature, C.is_gpg_signature, C.is_signable, C.checkformat_any_signature):
                        try:
                            f(v)
                        except Exception:  # noqa: BLE001
                            pass
                C.checkformat_signature({"signature": "ab" * 64})
                C.checkformat_gpg_signature({"signature": "ab" * 64, "other_headers": "04ff"})
                C.checkformat_utc_isoformat(rng.choice(["2021-01-01T00:00:00Z", "2021-13-01T00:00:00Z", 5]))
            elif what == 19:
                C.iso8601_time_plus_delta(__import__("datetime").timedelta(days=rng.randrange(400)))
                M.build_delegating_metadata("key_mgr", {"pkg_mgr": {"pubkeys": [k.hex], "threshold": 1}})
                M.build_delegating_metadata("key_mgr", {"pkg_mgr": {"pubkeys": [k.hex], "threshold": 1}}, timestamp="yesterday")
            elif what == 20 and scratch:
                # a file holding an integer beyond the interpreter's int<->str digit limit (the load fails)
                fn = os.path.join(scratch, "noise-hugeint.json")
                if not os.path.exists(fn):
                    with open(fn, "w") as f:
                        f.write('{"signatures": {}, "signed": {"n": ' + "9" * 5000 + "}}")
                C.load_metadata_from_file(fn)
            elif what == 21 and scratch and getattr(lib, "cli", None) is not None:
                # a short interactive modify-metadata session: the document is displayed, then stdin is at end-of-input
                import builtins

                fn = os.path.join(scratch, "noise-session.json")
                with open(fn, "wb") as f:
                    f.write(canonjson.canon(gmd.envelope(gmd.root_md(1, [k], 1, [gkeys.key(13)], 1))))
                real_input = builtins.input

                def _eof(prompt=""):  # the session displays the document and its menu, then its first prompt meets end-of-input
                    raise EOFError("noise session")

                builtins.input = _eof
                try:
                    lib.cli.cli(["modify-metadata", fn])
                finally:
                    builtins.input = real_input
            elif what == 23 and scratch and getattr(lib, "cli", None) is not None:
                # sign-artifacts runs (in this process) that end early: the key file is missing / a directory / binary / empty /
                # holds two lines, the repodata file is missing
                rp = os.path.join(scratch, "noise-cli-repodata.json")
                with open(rp, "w") as f:
                    f.write('{"packages": {"a-1-0.tar.bz2": {"name": "a"}}}')
                binf = os.path.join(scratch, "noise-binary.pri")
                with open(binf, "wb") as f:
                    f.write(bytes(range(200, 232)))
                two = os.path.join(scratch, "noise-two-lines.key")
                with open(two, "w") as f:
                    f.write(k.seed.hex() + "\n# note\n")
                empty = os.path.join(scratch, "noise-empty.key")
                open(empty, "w").close()
                for kf in (os.path.join(scratch, "no-such-keyfile"), scratch, binf, two, empty):
                    try:
                        lib.cli.cli(["sign-artifacts", rp, kf])
                    except BaseException as e:  # noqa: BLE001
                        if isinstance(e, (KeyboardInterrupt, MemoryError)):
                            raise
                try:
                    lib.cli.cli(["sign-artifacts", os.path.join(scratch, "no-such-repodata.json"), two])
                except BaseException as e:  # noqa: BLE001
                    if isinstance(e, (KeyboardInterrupt, MemoryError)):
                        raise
            elif what == 24:
                # the same kinds of calls, each made once per switchable option (keyword defaulting to False) with that option on
                env = S.wrap_as_signable({"a": [1, 2], "algorithm": "x"})
                pk = C.PrivateKey.from_bytes(k.seed)
                _with_each_option_on(S.sign_signable, env, pk)
                S.sign_signable(env, pk)
                _with_each_option_on(A.verify_signable, env, [k.hex], 1)
                ent = {"signature": "ab" * 64}
                gent = {"signature": "ab" * 64, "other_headers": "04ff"}
                for f in (C.is_signature, C.is_gpg_signature, C.checkformat_signature, C.checkformat_gpg_signature, C.checkformat_any_signature):
                    _with_each_option_on(f, ent)
                    _with_each_option_on(f, gent)
                _with_each_option_on(C.is_signable, env)
                _with_each_option_on(C.checkformat_signable, env)
                _with_each_option_on(C.canonserialize, {"b": 1, "a": 2})
                _with_each_option_on(S.wrap_as_signable, {"b": 1})
                _with_each_option_on(C.checkformat_utc_isoformat, "2021-01-01T00:00:00Z")
                _with_each_option_on(C.checkformat_hex_key, k.hex)
                _with_each_option_on(C.is_hex_key, k.hex)
                md = gmd.root_md(1, [k], 1, [gkeys.key(13)], 1)
                renv = gmd.sign_env(gmd.envelope(md), [k], True, rng)
                _with_each_option_on(C.checkformat_delegating_metadata, renv)
                md2 = gmd.root_md(2, [k], 1, [gkeys.key(13)], 1)
                renv2 = gmd.sign_env(gmd.envelope(md2), [k], True, rng)
                _with_each_option_on(A.verify_root, renv, renv2)
                km = gmd.envelope(gmd.delegating("key_mgr", {"pkg_mgr": gmd.delegation([k], 1)}))
                _with_each_option_on(A.verify_delegation, "pkg_mgr", env, km)
                _with_each_option_on(M.build_delegating_metadata, "key_mgr", {"pkg_mgr": {"pubkeys": [k.hex], "threshold": 1}})
                _with_each_option_on(M.build_root_metadata, 1, [k.hex], 1, [k.hex], 1)
                if scratch:
                    fn = os.path.join(scratch, "noise-options.json")
                    _with_each_option_on(C.write_metadata_to_file, renv, fn)
                    C.write_metadata_to_file(renv, fn)
                    _with_each_option_on(C.load_metadata_from_file, fn)
                    rp = os.path.join(scratch, "noise-options-repodata.json")
                    with open(rp, "w") as f:
                        f.write('{"packages": {"a-1-0.tar.bz2": {"name": "a"}}}')
                    _with_each_option_on(S.sign_all_in_repodata, rp, k.seed.hex())
            elif what == 22:
                import gc

                was = gc.isenabled()
                gc.collect()
                if not was:
                    gc.enable()
            else:
                data = canonjson.canon({"x": rng.random()})
                A.verify_signature(ed25519.sign(k.seed, data).hex(), C.PublicKey.from_bytes(k.pub), data)
        except BaseException as e:  # noqa: BLE001 - noise never judges
            if isinstance(e, (KeyboardInterrupt, SystemExit, MemoryError)):
                raise
            if os.environ.get("VF_NOISE_DEBUG"):
                import traceback

                tb = traceback.extract_tb(e.__traceback__)
                print("noise branch %d: %s: %s (raised at %s:%d)" % (what, type(e).__name__, str(e)[:80], os.path.basename(tb[-1].filename), tb[-1].lineno),
                      file=__import__("sys").stderr)
