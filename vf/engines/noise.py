"""Unrelated library activity interleaved between judged cases.

Every judged verdict must depend on the arguments of its own call only; so any amount
of *other* activity in the same process (building metadata of odd types, loading keys,
signing, verifying, failing serialisations, file round trips) between two judged calls
must not change them.  tick() performs a few such calls with seeded random, mostly
valid and sometimes failing, inputs.  All outcomes are ignored (this is noise, not an
oracle); exceptions are swallowed.
"""
import os

from ..gen import jsonvals, keys as gkeys, metadata as gmd
from ..refs import canonjson, ed25519


def tick(lib, rng, scratch=None, n=None):
    C, S, A, M = lib.common, lib.signing, lib.authentication, lib.metadata_construction
    for _ in range(n or rng.randint(1, 3)):
        k = gkeys.key(rng.randrange(12))
        what = rng.randrange(12)
        try:
            if what == 0:
                C.PublicKey.from_hex(k.hex)
                C.PrivateKey.from_hex(k.seed.hex())
            elif what == 1:
                env = S.wrap_as_signable(jsonvals.rand_payload(rng))
                S.sign_signable(env, C.PrivateKey.from_bytes(k.seed))
                A.verify_signable(env, [k.hex], 1)
            elif what == 2:
                M.build_delegating_metadata(rng.choice(["mirror_mgr", "pkg_mgr", "root", "key_mgr", "x", ""]),
                                            {rng.choice(["a", "root", ""]): {"pubkeys": [k.hex], "threshold": 1}},
                                            version=rng.randint(1, 5), timestamp="2021-01-01T00:00:00Z", expiration="2031-01-01T00:00:00Z")
            elif what == 3:
                M.build_delegating_metadata("key_mgr", {"x": {"pubkeys": ["not a key"], "threshold": 0}})
            elif what == 4:
                M.build_root_metadata(rng.randint(1, 9), [k.hex, gkeys.key(13).hex], rng.randint(1, 2), [gkeys.key(14).hex], 1)
            elif what == 5:
                C.canonserialize({"a": [1, {"n": 10**5000}]})
            elif what == 6:
                C.canonserialize(jsonvals.deep(3000))
            elif what == 7:
                C.canonserialize({"z": 1, "a": [jsonvals.rand_scalar(rng), {"y": 1, "b": 2}]})
            elif what == 8 and scratch:
                fn = os.path.join(scratch, "noise%d.json" % rng.randrange(3))
                v = {"signatures": {}, "signed": gmd.delegating(rng.choice(["root", "key_mgr"]), {}, version=rng.randint(1, 3))}
                C.write_metadata_to_file(v, fn)
                got = C.load_metadata_from_file(fn)
                got["signed"]["version"] = 99  # caller edits its own loaded copy
            elif what == 9:
                md = gmd.root_md(1, [k], 1, [gkeys.key(13)], 1)
                env = gmd.sign_env(gmd.envelope(md), [k], True, rng)
                A.verify_signable(env, [k.hex], 1, gpg=True)
                A.verify_root(env, env)
            elif what == 10:
                C.checkformat_delegating_metadata({"signatures": {"x": 1}, "signed": 5})
                C.checkformat_hex_key(k.hex.upper())
            else:
                data = canonjson.canon({"x": rng.random()})
                A.verify_signature(ed25519.sign(k.seed, data).hex(), C.PublicKey.from_bytes(k.pub), data)
        except BaseException as e:  # noqa: BLE001 - noise never judges
            if isinstance(e, (KeyboardInterrupt, SystemExit, MemoryError)):
                raise
