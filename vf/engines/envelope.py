"""Envelope workload shared by C01 / C02 / C06 / C12 / C13: generation of stratified
verify_signable cases in the case language, and their evaluation against the
reference threshold model."""
from . import hostile
from ..gen import caselang, entries as gentries, jsonvals, keys as gkeys
from ..monitors import boundary
from ..refs import canonjson, models, schema

UNIVERSE = 6

FILTERS = ["authorization", "crypto", "shape", "spelling", "distinct", "threshold", "misfiled",
           "transplant", "bad_threshold", "authorized_respelled", "far_threshold"]

# thresholds far above any possible number of signers, in spellings whose text / low bits / float image compare "small"
FAR_THRESHOLDS = [10, 11, 12, 19, 20, 29, 99, 100, 101, 199, 1000, 1999, 10**6, 2**31, 2**31 + 1, 2**32, 2**32 + 1, 2**63, 2**64, 2**64 + 1, 10**18,
                  10**30, 256, 257, 65536, 65537]

BAD_THRESHOLDS = [{"$py": "float", "v": "nan"}, {"$py": "float", "v": "inf"}, {"$py": "float", "v": "-inf"}, 1.5, 0.5, 0, -1, "1", None, [1],
                  {"$py": "decimal_nan"}, {"$py": "decimal_2_5"}, {"$py": "fraction_half"}, {"$py": "complex"}, 0.0, -0.0, 1e-300]


_FAST = {}


def _fast_sign(seed, msg):
    """deterministic ed25519 signature; OpenSSL through `cryptography` when present (cross-checked with the reference
    implementation on first use), else the reference itself"""
    from ..refs import ed25519 as _ref

    if "ok" not in _FAST:
        try:
            from cryptography.hazmat.primitives.asymmetric.ed25519 import Ed25519PrivateKey

            probe = Ed25519PrivateKey.from_private_bytes(bytes(range(32))).sign(b"vf-probe")
            _FAST["ok"] = probe == _ref.sign(bytes(range(32)), b"vf-probe")
            _FAST["cls"] = Ed25519PrivateKey
        except Exception:  # noqa: BLE001
            _FAST["ok"] = False
    if _FAST["ok"]:
        return _FAST["cls"].from_private_bytes(seed).sign(msg)
    return _ref.sign(seed, msg)


def _payload(rng):
    return jsonvals.rand_payload(rng, "small")


def gen_case(rng, gpg=None, stratum=None, force_state=None):
    """returns a case document (JSON-able)"""
    if gpg is None:
        gpg = rng.random() < 0.5
    if stratum is None:
        r = rng.random()
        if r < 0.25:
            stratum = "mixed"
        elif r < 0.47:
            stratum = "accept"
        elif r < 0.49:
            stratum = "many_signers"
        elif r < 0.5:
            stratum = "crowded"
        else:
            stratum = "sole:" + rng.choice(FILTERS)
    signed = _payload(rng)
    data = canonjson.canon(signed)
    uni = [gkeys.key(i) for i in range(UNIVERSE)]
    rng.shuffle(uni)
    n_auth = rng.randint(1, 5)
    auth = uni[:n_auth]
    outsiders = uni[n_auth:]
    pairs = []
    st_names = []
    extra_auth = []
    vs = gentries.valid_states(gpg)
    ivs = gentries.invalid_states(gpg)

    def add(k_str, state, key):
        pairs.append([k_str, gentries.make(state, gpg, key, data, rng, signed)])
        st_names.append(state)

    if stratum == "mixed":
        t = rng.randint(1, n_auth + 1)
        allst = [s for s, _ in gentries.states(gpg)]
        for k in auth:
            if rng.random() < 0.8:
                add(k.hex, rng.choice(allst if rng.random() < 0.6 else vs), k)
        for k in outsiders:
            if rng.random() < 0.4:
                add(k.hex, rng.choice(vs), k)
    elif stratum == "many_signers":
        # ten or more distinct good signers against a small threshold (and against thresholds just below / at / above their number)
        auth = [gkeys.key(100 + i) for i in range(rng.randint(10, 14))]
        rng.shuffle(auth)
        outsiders = uni
        nvalid = rng.randint(10, len(auth))
        t = rng.choice([1, 2, 3, 5, 9, nvalid - 1, nvalid, nvalid + 1, nvalid + 1, 11, 20])
        for k in auth[:nvalid]:
            add(k.hex, rng.choice(vs), k)
        for k in auth[nvalid:]:
            if rng.random() < 0.5:
                add(k.hex, rng.choice(ivs), k)
    elif stratum == "crowded":
        # far more entries than any real envelope: tens to hundreds of well-formed entries under UNAUTHORIZED keys (valid for
        # their own keys) and junk; the authorized signers sit anywhere, often at the very end.  No cap, notice limit or batch
        # boundary may change which entries count.
        n_out = rng.choice([11, 12, 20, 33, 64, 65, 66, 100, 129, 257])
        crowd = [gkeys.key(200 + i) for i in range(n_out)]
        nvalid = rng.randint(0, n_auth)
        t = rng.choice([max(1, nvalid), nvalid + 1, 1, 1])
        for k in auth[:nvalid]:
            add(k.hex, rng.choice(vs), k)
        tail = list(pairs)
        tail_states = list(st_names)
        del pairs[:], st_names[:]
        hdr = gentries._hdr(rng, "gnupg")
        for k in crowd:
            # crowd entries never enter the model's count (their keys are not authorized), so they are made with the fast
            # signer (checked against the reference once per process); they are genuinely valid for their own keys
            if gpg:
                from ..refs import openpgp as _pgp

                pairs.append([k.hex, {"other_headers": hdr.hex(), "signature": _fast_sign(k.seed, _pgp.digest(data, hdr)).hex()}])
            else:
                pairs.append([k.hex, {"signature": _fast_sign(k.seed, data).hex()}])
            st_names.append("valid_by_unauthorized_crowd_key")
        where = rng.choice(["end", "end", "start", "middle", "spread"])
        if where == "end":
            pairs.extend(tail); st_names.extend(tail_states)
        elif where == "start":
            pairs[:0] = tail; st_names[:0] = tail_states
        elif where == "middle":
            m = len(pairs) // 2
            pairs[m:m] = tail; st_names[m:m] = tail_states
        else:
            for pr, stn in zip(tail, tail_states):
                j = rng.randint(0, len(pairs))
                pairs.insert(j, pr); st_names.insert(j, stn)
    elif stratum == "accept":
        nvalid = rng.randint(1, n_auth)
        t = rng.randint(1, nvalid)
        for k in auth[:nvalid]:
            add(k.hex, rng.choice(vs), k)
        for k in auth[nvalid:]:
            if rng.random() < 0.5:
                add(k.hex, rng.choice(ivs), k)
        for k in outsiders:
            if rng.random() < 0.3:
                add(k.hex, rng.choice(vs), k)
        if rng.random() < 0.2:
            # a caller's key list that names a key more than once (concatenated from several sources): still the same set of keys
            extra_auth = [rng.choice(auth).hex for _ in range(rng.randint(1, 2))]
    else:
        filt = stratum.split(":", 1)[1]
        # exactly t-1 valid authorized signers + one entry that would count if the
        # named filter alone were broken
        t = rng.randint(1, n_auth + (1 if filt in ("authorization", "spelling", "threshold", "transplant") else 0))
        t = max(1, min(t, n_auth + 1))
        nvalid = t - 1
        if nvalid > n_auth:
            nvalid = n_auth
            t = nvalid + 1
        for k in auth[:nvalid]:
            add(k.hex, rng.choice(vs), k)
        rest = auth[nvalid:]
        if filt == "authorization":
            k = outsiders[0] if outsiders else gkeys.rand_key(rng)
            add(k.hex, rng.choice(vs), k)
        elif filt == "crypto":
            if not rest:
                stratum = "sole:threshold"
            else:
                cryp = [s for s in ivs if s in ("malleated", "bitflip", "other_payload", "other_key",
                                                 "envelope_signed", "compact_signed", "hdr_flip",
                                                 "hdr_truncated", "hdr_extended", "boundary_shift",
                                                 "raw_sig_with_hdr", "hugehdr_garbage_sig", "alg_sha512_declared_and_used",
                                                 "alg_sha1_declared_and_used", "alg_sha384_declared_and_used")]
                add(rest[0].hex, force_state if force_state in ivs else rng.choice(cryp), rest[0])
        elif filt == "shape":
            if not rest:
                stratum = "sole:threshold"
            else:
                shp = [s for s in ivs if s in ("len_minus", "len_plus", "upper", "bare_string",
                                                "extra_field", "none", "number", "list", "sig_not_str",
                                                "empty_dict", "gpg_valid_in_raw", "raw_valid_in_gpg",
                                                "bad_see_also", "hdr_upper", "hdr_odd", "hdr_empty", "hdr_hex_whitespace", "hdr_hex_trailing_lf")]
                add(rest[0].hex, force_state if force_state in ivs else rng.choice(shp), rest[0])
        elif filt == "spelling":
            # valid entry by an authorized key, filed under another spelling of it
            k = rest[0] if rest else (auth[0] if auth else None)
            sp = rng.choice(gkeys.respellings(k.hex))
            add(sp, rng.choice(vs), k)
        elif filt == "misfiled":
            # valid signature by authorized key B filed under authorized key C (C != B)
            if len(rest) >= 2:
                b, c = rest[0], rest[1]
                add(c.hex, rng.choice(vs), b)
            elif rest and outsiders:
                add(rest[0].hex, rng.choice(vs), outsiders[0])
            else:
                stratum = "sole:threshold"
        elif filt == "transplant":
            # valid entry of the same key over ANOTHER payload (as if copied from another envelope)
            if rest:
                k = rest[0]
                other_signed = {"other": signed} if not isinstance(signed, dict) else dict(signed, extra_field=1)
                odata = canonjson.canon(other_signed)
                pairs.append([k.hex, gentries.make(rng.choice(vs), gpg, k, odata, rng, other_signed)])
                st_names.append("transplant")
            else:
                stratum = "sole:threshold"
        elif filt == "distinct":
            # duplicates in the authorized list must not let one signer count twice
            if nvalid >= 1:
                auth = auth + [auth[0]] * rng.randint(1, 2)
            else:
                stratum = "sole:threshold"
        elif filt == "bad_threshold":
            # a threshold that is not a positive integer never lets anything through, however many valid signers there are
            for k in rest:
                add(k.hex, rng.choice(vs), k)
            t = rng.choice(BAD_THRESHOLDS)
        elif filt == "authorized_respelled":
            # the authorized list itself names a key twice, the second time under another spelling, and the signature map
            # files the signer's entry under both: one signer must never fill two slots
            if nvalid >= 1:
                k0 = auth[0]
                sp = rng.choice(gkeys.respellings(k0.hex))
                extra_auth = [sp]
                import copy as _copy

                src = next(p for p in pairs if p[0] == k0.hex)
                pairs.append([sp, _copy.deepcopy(src[1])])
                st_names.append("copy_under_respelling")
            else:
                stratum = "sole:threshold"
        elif filt == "far_threshold":
            # several good signers, a (positive integer) threshold far above them
            for k in rest:
                add(k.hex, rng.choice(vs), k)
            for k in outsiders[:2]:
                add(k.hex, rng.choice(vs), k)
            t = rng.choice([x for x in FAR_THRESHOLDS if x > len(auth)])
        elif filt == "threshold":
            if rng.random() < 0.4:
                # every authorized key has a valid entry, the threshold is still one higher (legal "draft" shape),
                # and further (unauthorized but valid) entries follow
                for k in auth[nvalid:]:
                    add(k.hex, rng.choice(vs), k)
                t = len(auth) + rng.randint(1, 2)
                for k in outsiders[:2]:
                    add(k.hex, rng.choice(vs), k)
    # an exact COPY of a valid entry, filed under another authorized key that has no entry of its own
    # (the copy does not verify under that key; the original must still count)
    if rng.random() < 0.3:
        have = {p[0] for p in pairs}
        free = [k for k in auth if k.hex not in have]
        valid_pairs = [p for p, st in zip(pairs, st_names) if st in vs and p[0] in {k.hex for k in auth}]
        if free and valid_pairs:
            import copy as _copy

            pairs.insert(0, [free[0].hex, _copy.deepcopy(rng.choice(valid_pairs)[1])])
            st_names.insert(0, "copy_of_other_keys_valid_entry")
    # the optional, unsigned see_also field: sometimes every OpenPGP-shaped entry carries the SAME value (one keyholder's primary-key
    # fingerprint for several signing subkeys) - it is diagnostic only and never decides which entries count
    if gpg and rng.random() < 0.25:
        fp = "%040x" % rng.getrandbits(160)
        for pr, stn in zip(pairs, st_names):
            if isinstance(pr[1], dict) and set(pr[1]) >= {"other_headers", "signature"} and isinstance(pr[1].get("see_also", ""), str) and stn in vs:
                pr[1]["see_also"] = fp
        st_names.append("shared_see_also") if False else None
    # junk
    nj = rng.choice([0, 0, 1, 2, 5])
    for _ in range(nj):
        k, v = gentries.junk_pair(rng)
        if not any(p[0] == k for p in pairs):
            pairs.append([k, v])
            st_names.append("junk")
    order = list(range(len(pairs)))
    if stratum != "crowded":
        rng.shuffle(order)
    pairs = [pairs[i] for i in order]
    st_names = [st_names[i] for i in order] if stratum == "crowded" else st_names
    authorized = [k.hex for k in auth] + extra_auth
    if stratum != "sole:distinct":
        rng.shuffle(authorized)
    return {
        "kind": "env",
        "signed": signed,
        "sigs": pairs,
        "authorized": authorized,
        "threshold": t,
        "gpg": gpg,
        "stratum": stratum,
        "states": sorted(st_names),
    }


def materialise(case, lib=None):
    signable = {
        "signatures": {k: caselang.dec(v, lib) for k, v in case["sigs"]},
        "signed": caselang.dec(case["signed"], lib),
    }
    return signable, caselang.dec(case["authorized"], lib), caselang.dec(case["threshold"], lib), case["gpg"]


def distinct_key(case):
    return "%s|%r|%d|%s|%s" % (
        case["gpg"],
        case["threshold"],
        len(case["authorized"]),
        ",".join(case["states"]),
        case["stratum"],
    )


def evaluate(case, lib, fn=None):
    """returns (model_verdict, outcome, mutated:bool)"""
    signable, authorized, threshold, gpg = materialise(case, lib)
    model = models.threshold_verdict(signable, authorized, threshold, gpg)
    before = boundary.fingerprint([signable, authorized, threshold])
    f = fn or lib.authentication.verify_signable
    with hostile.stdout(case.get("stdout")) as hs:
        out = boundary.call(lib, f, signable, authorized, threshold, gpg=gpg)
    case["_stdout_write_attempts"] = hs.attempts
    model = hostile.adjust(model, case.get("stdout"))
    after = boundary.fingerprint([signable, authorized, threshold])
    return model, out, before != after, signable


def brief(case):
    """compact, JSON-safe description used for samples"""
    return {
        "stratum": case["stratum"],
        "gpg": case["gpg"],
        "threshold": case["threshold"],
        "authorized": [a[:8] for a in case["authorized"]] if isinstance(case["authorized"], list) else case["authorized"],
        "entries": [[k[:10] if isinstance(k, str) else k, st] for (k, _v), st in zip(case["sigs"], case.get("states", []))][:8],
        "states": case["states"],
        "signed": case["signed"],
    }
