"""Envelope workload shared by C01 / C02 / C06 / C12 / C13: generation of stratified
verify_signable cases in the case language, and their evaluation against the
reference threshold model."""
from . import hostile
from ..gen import caselang, entries as gentries, jsonvals, keys as gkeys
from ..monitors import boundary
from ..refs import canonjson, models, schema

UNIVERSE = 6

FILTERS = ["authorization", "crypto", "shape", "spelling", "distinct", "threshold", "misfiled",
           "transplant", "bad_threshold", "authorized_respelled", "far_threshold"]

# thresholds far above any possible number of signers, in spellings whose text / low bits / float image compare "small"
FAR_THRESHOLDS = [10, 11, 12, 19, 20, 29, 99, 100, 101, 199, 1000, 1999, 10**6, 2**31, 2**31 + 1, 2**32, 2**32 + 1, 2**63, 2**64, 2**64 + 1, 10**18,
                  10**30, 256, 257, 65536, 65537]

BAD_THRESHOLDS = [{"$py": "float", "v": "nan"}, {"$py": "float", "v": "inf"}, {"$py": "float", "v": "-inf"}, 1.5, 0.5, 0, -1, "1", None, [1],
                  {"$py": "decimal_nan"}, {"$py": "decimal_2_5"}, {"$py": "fraction_half"}, {"$py": "complex"}, 0.0, -0.0, 1e-300]


def _payload(rng):
    return jsonvals.rand_payload(rng, "small")


def gen_case(rng, gpg=None, stratum=None):
    """returns a case document (JSON-able)"""
    if gpg is None:
        gpg = rng.random() < 0.5
    if stratum is None:
        r = rng.random()
        if r < 0.25:
            stratum = "mixed"
        elif r < 0.47:
            stratum = "accept"
        elif r < 0.5:
            stratum = "many_signers"
        else:
            stratum = "sole:" + rng.choice(FILTERS)
    signed = _payload(rng)
    data = canonjson.canon(signed)
    uni = [gkeys.key(i) for i in range(UNIVERSE)]
    rng.shuffle(uni)
    n_auth = rng.randint(1, 5)
    auth = uni[:n_auth]
    outsiders = uni[n_auth:]
    pairs = []
    st_names = []
    extra_auth = []
    vs = gentries.valid_states(gpg)
    ivs = gentries.invalid_states(gpg)

    def add(k_str, state, key):
        pairs.append([k_str, gentries.make(state, gpg, key, data, rng, signed)])
        st_names.append(state)

    if stratum == "mixed":
        t = rng.randint(1, n_auth + 1)
        allst = [s for s, _ in gentries.states(gpg)]
        for k in auth:
            if rng.random() < 0.8:
                add(k.hex, rng.choice(allst if rng.random() < 0.6 else vs), k)
        for k in outsiders:
            if rng.random() < 0.4:
                add(k.hex, rng.choice(vs), k)
    elif stratum == "many_signers":
        # ten or more distinct good signers against a small threshold (and against thresholds just below / at / above their number)
        auth = [gkeys.key(100 + i) for i in range(rng.randint(10, 14))]
        rng.shuffle(auth)
        outsiders = uni
        nvalid = rng.randint(10, len(auth))
        t = rng.choice([1, 2, 3, 5, 9, nvalid - 1, nvalid, nvalid + 1, nvalid + 1, 11, 20])
        for k in auth[:nvalid]:
            add(k.hex, rng.choice(vs), k)
        for k in auth[nvalid:]:
            if rng.random() < 0.5:
                add(k.hex, rng.choice(ivs), k)
    elif stratum == "accept":
        nvalid = rng.randint(1, n_auth)
        t = rng.randint(1, nvalid)
        for k in auth[:nvalid]:
            add(k.hex, rng.choice(vs), k)
        for k in auth[nvalid:]:
            if rng.random() < 0.5:
                add(k.hex, rng.choice(ivs), k)
        for k in outsiders:
            if rng.random() < 0.3:
                add(k.hex, rng.choice(vs), k)
    else:
        filt = stratum.split(":", 1)[1]
        # exactly t-1 valid authorized signers + one entry that would count if the
        # named filter alone were broken
        t = rng.randint(1, n_auth + (1 if filt in ("authorization", "spelling", "threshold", "transplant") else 0))
        t = max(1, min(t, n_auth + 1))
        nvalid = t - 1
        if nvalid > n_auth:
            nvalid = n_auth
            t = nvalid + 1
        for k in auth[:nvalid]:
            add(k.hex, rng.choice(vs), k)
        rest = auth[nvalid:]
        if filt == "authorization":
            k = outsiders[0] if outsiders else gkeys.rand_key(rng)
            add(k.hex, rng.choice(vs), k)
        elif filt == "crypto":
            if not rest:
                stratum = "sole:threshold"
            else:
                cryp = [s for s in ivs if s in ("malleated", "bitflip", "other_payload", "other_key",
                                                 "envelope_signed", "compact_signed", "hdr_flip",
                                                 "hdr_truncated", "hdr_extended", "boundary_shift",
                                                 "raw_sig_with_hdr", "hugehdr_garbage_sig", "alg_sha512_declared_and_used",
                                                 "alg_sha1_declared_and_used", "alg_sha384_declared_and_used")]
                add(rest[0].hex, rng.choice(cryp), rest[0])
        elif filt == "shape":
            if not rest:
                stratum = "sole:threshold"
            else:
                shp = [s for s in ivs if s in ("len_minus", "len_plus", "upper", "bare_string",
                                                "extra_field", "none", "number", "list", "sig_not_str",
                                                "empty_dict", "gpg_valid_in_raw", "raw_valid_in_gpg",
                                                "bad_see_also", "hdr_upper", "hdr_odd", "hdr_empty")]
                add(rest[0].hex, rng.choice(shp), rest[0])
        elif filt == "spelling":
            # valid entry by an authorized key, filed under another spelling of it
            k = rest[0] if rest else (auth[0] if auth else None)
            sp = rng.choice(gkeys.respellings(k.hex))
            add(sp, rng.choice(vs), k)
        elif filt == "misfiled":
            # valid signature by authorized key B filed under authorized key C (C != B)
            if len(rest) >= 2:
                b, c = rest[0], rest[1]
                add(c.hex, rng.choice(vs), b)
            elif rest and outsiders:
                add(rest[0].hex, rng.choice(vs), outsiders[0])
            else:
                stratum = "sole:threshold"
        elif filt == "transplant":
            # valid entry of the same key over ANOTHER payload (as if copied from another envelope)
            if rest:
                k = rest[0]
                other_signed = {"other": signed} if not isinstance(signed, dict) else dict(signed, extra_field=1)
                odata = canonjson.canon(other_signed)
                pairs.append([k.hex, gentries.make(rng.choice(vs), gpg, k, odata, rng, other_signed)])
                st_names.append("transplant")
            else:
                stratum = "sole:threshold"
        elif filt == "distinct":
            # duplicates in the authorized list must not let one signer count twice
            if nvalid >= 1:
                auth = auth + [auth[0]] * rng.randint(1, 2)
            else:
                stratum = "sole:threshold"
        elif filt == "bad_threshold":
            # a threshold that is not a positive integer never lets anything through, however many valid signers there are
            for k in rest:
                add(k.hex, rng.choice(vs), k)
            t = rng.choice(BAD_THRESHOLDS)
        elif filt == "authorized_respelled":
            # the authorized list itself names a key twice, the second time under another spelling, and the signature map
            # files the signer's entry under both: one signer must never fill two slots
            if nvalid >= 1:
                k0 = auth[0]
                sp = rng.choice(gkeys.respellings(k0.hex))
                extra_auth = [sp]
                import copy as _copy

                src = next(p for p in pairs if p[0] == k0.hex)
                pairs.append([sp, _copy.deepcopy(src[1])])
                st_names.append("copy_under_respelling")
            else:
                stratum = "sole:threshold"
        elif filt == "far_threshold":
            # several good signers, a (positive integer) threshold far above them
            for k in rest:
                add(k.hex, rng.choice(vs), k)
            for k in outsiders[:2]:
                add(k.hex, rng.choice(vs), k)
            t = rng.choice([x for x in FAR_THRESHOLDS if x > len(auth)])
        elif filt == "threshold":
            if rng.random() < 0.4:
                # every authorized key has a valid entry, the threshold is still one higher (legal "draft" shape),
                # and further (unauthorized but valid) entries follow
                for k in auth[nvalid:]:
                    add(k.hex, rng.choice(vs), k)
                t = len(auth) + rng.randint(1, 2)
                for k in outsiders[:2]:
                    add(k.hex, rng.choice(vs), k)
    # an exact COPY of a valid entry, filed under another authorized key that has no entry of its own
    # (the copy does not verify under that key; the original must still count)
    if rng.random() < 0.3:
        have = {p[0] for p in pairs}
        free = [k for k in auth if k.hex not in have]
        valid_pairs = [p for p, st in zip(pairs, st_names) if st in vs and p[0] in {k.hex for k in auth}]
        if free and valid_pairs:
            import copy as _copy

            pairs.insert(0, [free[0].hex, _copy.deepcopy(rng.choice(valid_pairs)[1])])
            st_names.insert(0, "copy_of_other_keys_valid_entry")
    # junk
    nj = rng.choice([0, 0, 1, 2, 5])
    for _ in range(nj):
        k, v = gentries.junk_pair(rng)
        if not any(p[0] == k for p in pairs):
            pairs.append([k, v])
            st_names.append("junk")
    order = list(range(len(pairs)))
    rng.shuffle(order)
    pairs = [pairs[i] for i in order]
    authorized = [k.hex for k in auth] + extra_auth
    if stratum != "sole:distinct":
        rng.shuffle(authorized)
    return {
        "kind": "env",
        "signed": signed,
        "sigs": pairs,
        "authorized": authorized,
        "threshold": t,
        "gpg": gpg,
        "stratum": stratum,
        "states": sorted(st_names),
    }


def materialise(case, lib=None):
    signable = {
        "signatures": {k: caselang.dec(v, lib) for k, v in case["sigs"]},
        "signed": caselang.dec(case["signed"], lib),
    }
    return signable, caselang.dec(case["authorized"], lib), caselang.dec(case["threshold"], lib), case["gpg"]


def distinct_key(case):
    return "%s|%r|%d|%s|%s" % (
        case["gpg"],
        case["threshold"],
        len(case["authorized"]),
        ",".join(case["states"]),
        case["stratum"],
    )


def evaluate(case, lib, fn=None):
    """returns (model_verdict, outcome, mutated:bool)"""
    signable, authorized, threshold, gpg = materialise(case, lib)
    model = models.threshold_verdict(signable, authorized, threshold, gpg)
    before = boundary.fingerprint([signable, authorized, threshold])
    f = fn or lib.authentication.verify_signable
    with hostile.stdout(case.get("stdout")) as hs:
        out = boundary.call(lib, f, signable, authorized, threshold, gpg=gpg)
    case["_stdout_write_attempts"] = hs.attempts
    model = hostile.adjust(model, case.get("stdout"))
    after = boundary.fingerprint([signable, authorized, threshold])
    return model, out, before != after, signable


def brief(case):
    """compact, JSON-safe description used for samples"""
    return {
        "stratum": case["stratum"],
        "gpg": case["gpg"],
        "threshold": case["threshold"],
        "authorized": [a[:8] for a in case["authorized"]] if isinstance(case["authorized"], list) else case["authorized"],
        "entries": [[k[:10] if isinstance(k, str) else k, st] for (k, _v), st in zip(case["sigs"], case.get("states", []))][:8],
        "states": case["states"],
        "signed": case["signed"],
    }
