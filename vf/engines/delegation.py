"""Delegation workload shared by C05 / C06 / C13."""
import copy

from . import hostile
from ..gen import entries as gentries, jsonvals, keys as gkeys, metadata as gmd
from ..monitors import boundary
from ..refs import canonjson, models

ROLE_POOL = ["root", "key_mgr", "pkg_mgr", "", "r\u00f6le", "key_mgr ", "Key_mgr", "pkg_mgr2", "\U0001f600", "role\ud800",
             "sign\u00e9", "signe\u0301", "\u212bngstr\u00f6m", "\u00c5ngstro\u0308m", "pkg_mgr.json", "\uff52\uff4f\uff4f\uff54", "ro\u200bot"]


def role_variants(name):
    """other spellings a sloppy lookup might treat as the same role (all are DIFFERENT names)"""
    import unicodedata

    out = {unicodedata.normalize(f, name) for f in ("NFC", "NFD", "NFKC", "NFKD")}
    out |= {name.upper(), name.lower(), name.casefold(), name.strip(), name + " ", " " + name, name + ".json", name + "\x00",
            name.replace(".json", ""), name.title(), name + "s", name[:-1]}
    out.discard(name)
    return sorted(out)
BOUNDARY_DATES = ["2000-02-29T00:00:00Z", "2400-02-29T23:59:59Z", "2024-02-29T12:00:00Z", "1970-01-01T00:00:00Z", "1969-12-31T23:59:59Z",
                  "2038-01-19T03:14:08Z", "0001-01-01T00:00:00Z", "9999-12-31T23:59:59Z", "1999-12-31T23:59:59Z", "2100-02-28T23:59:59Z",
                  "1900-03-01T00:00:00Z", "2021-10-31T01:30:00Z", "2016-12-31T23:59:59Z", "1600-02-29T00:00:00Z"]

STRATA = ["named", "named", "named", "other_role", "untrusted_own", "union", "below", "below", "type_confusion", "unknown_role",
          "named_junk", "trusted_malformed", "named_with_stale_listed", "named_with_stale_listed", "empty_keylist"]
# member names learned from the library's own code (gen.vocab), set by the property module at shard start
EXTRA_NAMES = []


def gen_case(rng, gpg=None, stratum=None, spec_version_prob=0.15):
    if gpg is None:
        gpg = rng.random() < 0.4
    if stratum is None:
        stratum = rng.choice(STRATA)
    U = [gkeys.key(i) for i in range(10)]
    rng.shuffle(U)
    nroles = rng.randint(2, 4)
    names = rng.sample(ROLE_POOL, nroles)
    # make sure a supported type name is among the roles often (so that delegating untrusted metadata can match)
    if rng.random() < 0.7 and not any(n in ("root", "key_mgr") for n in names):
        names[0] = rng.choice(["root", "key_mgr"])
    overlap = rng.random() < 0.35
    dels, rolekeys = {}, {}
    pos = 0
    for n in names:
        nk = rng.randint(1, 3)
        if overlap and pos > 0:
            ks = U[pos - 1:pos - 1 + nk]
            pos += nk - 1
        else:
            ks = U[pos:pos + nk]
            pos += nk
        ks = ks or [U[0]]
        t = rng.randint(1, len(ks))
        if rng.random() < 0.08:
            t = len(ks) + 1  # legal "draft" shape: can never be met
        rolekeys[n] = (ks, t)
        dels[n] = gmd.delegation(ks, t)
    if stratum == "empty_keylist":
        # a role that IS delegated, to nobody yet (a draft: empty key list, positive threshold): it is a known role whose
        # threshold nothing can meet - whoever signs
        n = rng.choice(names)
        rolekeys[n] = ([], rng.choice([1, 1, 2]))
        dels[n] = gmd.delegation([], rolekeys[n][1])
    ttype = rng.choice(["root", "key_mgr"])
    if rng.random() < 0.06:
        # integral non-int numerics (accepted by the checker today; verdict is a grey zone, purity is not)
        for n in dels:
            dels[n]["threshold"] = float(dels[n]["threshold"])
    trusted = gmd.envelope(gmd.delegating(ttype, dels, version=rng.choice([rng.randint(1, 9), 3.0]) if rng.random() < 0.1 else rng.randint(1, 9)))
    attackers = U[7:10]
    role = rng.choice(names)
    if stratum == "empty_keylist":
        role = next(n for n in names if not rolekeys[n][0])
    if stratum == "unknown_role":
        role = rng.choice([r for r in ROLE_POOL + ["nope", "root.json"] if r not in names])
        if rng.random() < 0.6:
            # a spelling that is canonically / case-wise / whitespace-wise "close" to a listed role, but another name
            cands = [v for n in names for v in role_variants(n) if v not in names]
            if cands:
                role = rng.choice(cands)  # signed below with the keys of EVERY listed role, incl. the one it resembles
    # the untrusted document
    kind = rng.choice(["delegating", "delegating", "payload"])
    if stratum == "type_confusion":
        kind = "delegating"
    if kind == "delegating":
        if stratum == "type_confusion":
            # presented for `role`, declares another supported type
            if role not in ("root", "key_mgr"):
                # only roles named like a supported type or anything: declared type must differ from role
                utype = rng.choice(["root", "key_mgr"])
            else:
                utype = "key_mgr" if role == "root" else "root"
        else:
            utype = role if role in ("root", "key_mgr") else None
        if utype is None:
            kind = "payload"
    if kind == "delegating":
        own = {role: gmd.delegation(attackers[:2], 1)} if rng.random() < 0.6 else {}
        if rng.random() < 0.5:
            own["pkg_mgr"] = gmd.delegation(attackers[2:3], 1)
        usigned = gmd.delegating(utype, own, version=rng.randint(1, 5))
        shape = rng.choice(["plain", "plain", "expired_before_timestamp", "expiration_equals_timestamp", "no_timestamp", "big_version",
                            "huge_version", "extra_fields", "far_future", "boundary_dates", "boundary_dates", "integral_nonint_numbers"])
        if shape == "boundary_dates":
            # well-formed dates at calendar boundaries (century leap days, epoch, year 1 / 9999, end of month / year)
            usigned["timestamp"], usigned["expiration"] = rng.choice(BOUNDARY_DATES), rng.choice(BOUNDARY_DATES)
        elif shape == "integral_nonint_numbers":
            # whole numbers spelled as float / true in the document's OWN delegations and version (what other JSON writers emit)
            for dname in list(usigned["delegations"]):
                usigned["delegations"][dname]["threshold"] = rng.choice([1.0, True, 1])
            if rng.random() < 0.5 and type(usigned.get("version")) is int and usigned["version"] < 2**53:
                usigned["version"] = float(usigned["version"])
        if shape == "expired_before_timestamp":
            usigned["timestamp"], usigned["expiration"] = "2030-06-01T00:00:00Z", "2021-01-01T00:00:00Z"
        elif shape == "expiration_equals_timestamp":
            usigned["timestamp"] = usigned["expiration"] = "2025-02-28T23:59:59Z"
        elif shape == "no_timestamp":
            usigned.pop("timestamp")
        elif shape == "big_version":
            usigned["version"] = 2**64
        elif shape == "huge_version":
            usigned["version"] = rng.choice([2**1024, 10**400])
        elif shape == "extra_fields":
            usigned["extra"] = [None, {"x": 1.5}]
        elif shape == "far_future":
            usigned["timestamp"], usigned["expiration"] = "9998-01-01T00:00:00Z", "9999-12-31T23:59:59Z"
        if rng.random() < spec_version_prob:
            # specification versions other than the library's own - mostly strings this process has never seen before (whatever a
            # version of the library remembers about version strings it has met must not matter)
            usigned["metadata_spec_version"] = rng.choice(["1.0.0", "2.0.0-\u00e9", "1.0.0\ud800", "", "\U0001f600.0.0",
                                                           "0.%d.%d" % (rng.randrange(7, 10**6), rng.randrange(100)), "0.6.%d" % rng.randrange(1, 10**6),
                                                           "%d.0.0" % rng.randrange(1, 10**6), "0.%d.%d" % (rng.randrange(7, 10**6), rng.randrange(100))])
    else:
        usigned = jsonvals.rand_payload(rng)
        if rng.random() < 0.3:
            # payload that LOOKS like delegating metadata but is not (unsupported type / missing field)
            # signed content that is NOT delegating metadata although it looks like it: unsupported type, or a supported type
            # name on a document that fails the schema (draft with fractional seconds, missing field, version 0 ...).  It is
            # arbitrary signed content: no type binding applies, the named role's keys and threshold decide alone.
            usigned = gmd.delegating(rng.choice(["pkg_mgr", "other", role, "root", "key_mgr", "root", "key_mgr"]),
                                     {role: gmd.delegation(attackers[:1], 1)})
            how = rng.choice(["del_expiration", "fractional_dates", "version_0", "delegations_list", "none_if_unsupported", "del_spec", "type_only",
                              "timestamp_null", "version_null", "timestamp_empty", "expiration_null", "version_false"])
            if how in ("timestamp_null", "timestamp_empty"):
                usigned["timestamp"] = None if how == "timestamp_null" else ""
            elif how in ("version_null", "version_false"):
                usigned["version"] = None if how == "version_null" else False
            elif how == "expiration_null":
                usigned["expiration"] = None
            if how == "del_expiration":
                usigned.pop("expiration")
            elif how == "fractional_dates":
                usigned["timestamp"], usigned["expiration"] = "2021-01-01T00:00:00.500Z", "2031-01-01T00:00:00.500Z"
            elif how == "version_0":
                usigned["version"] = 0
            elif how == "delegations_list":
                usigned["delegations"] = [role]
            elif how == "del_spec":
                usigned.pop("metadata_spec_version")
            elif how == "type_only":
                usigned = {"type": usigned["type"], "payload": [1, 2, 3]}
            elif usigned["type"] in ("root", "key_mgr"):
                usigned.pop("expiration")
    extras = False
    if EXTRA_NAMES and rng.random() < 0.2:
        # members the stated rules say nothing about, under every name the library's code mentions, referring to this scenario's
        # keys and roles - in the presented document (before it is signed) and / or in the trusted one
        rk = [k.hex for k in (rolekeys.get(role) or ([], 1))[0]]
        val = rng.choice([rk, rk[:1], rk[1:], [k.hex for k in attackers], {h: True for h in rk}, 1, True, "strict", [], role,
                          {role: {"pubkeys": [k.hex for k in attackers], "threshold": 1}}, [k.hex for k in U]])
        where = rng.choice(["untrusted", "trusted", "both"])
        if where in ("untrusted", "both") and isinstance(usigned, dict):
            for n in EXTRA_NAMES:
                usigned.setdefault(n, copy.deepcopy(val))
            extras = True
        if where in ("trusted", "both"):
            for n in EXTRA_NAMES:
                trusted["signed"].setdefault(n, copy.deepcopy(val))
            extras = True
    untrusted = gmd.envelope(usigned)
    data = canonjson.canon(usigned)
    vs = gentries.valid_states(gpg)

    def sign(keys, state=None):
        for k in keys:
            untrusted["signatures"][k.hex] = gentries.make(state or rng.choice(vs), gpg, k, data, rng, usigned)

    if role in rolekeys:
        ks, t = rolekeys[role]
    else:
        ks, t = [], 1
    others = [n for n in names if n != role]
    if stratum == "named_with_stale_listed":
        # exactly the threshold of good signers; every OTHER listed key carries a well-formed signature that does not verify
        # (stale: made over an earlier version of the document / by another key / bit-flipped); entry order is shuffled below
        good = rng.sample(ks, min(t, len(ks)))
        sign(good)
        wf = [st for st in gentries.invalid_states(gpg) if st in ("other_payload", "other_key", "bitflip", "malleated", "hdr_flip")] or \
            gentries.invalid_states(gpg)
        for k in ks:
            if k.hex not in {g.hex for g in good}:
                sign([k], rng.choice(wf))
    elif stratum == "empty_keylist":
        for n in others:
            sign(rolekeys[n][0])
        sign(attackers[:2])
    elif stratum in ("named", "named_junk", "type_confusion", "unknown_role"):
        if ks:
            sign(rng.sample(ks, rng.randint(min(t, len(ks)), len(ks))))
        else:
            # unknown role: sign with every key the trusted side knows
            for n in names:
                sign(rolekeys[n][0])
    elif stratum == "other_role":
        o = rng.choice(others)
        oks, ot = rolekeys[o]
        sign([k for k in oks if k.hex not in {x.hex for x in ks}])
        sign(rng.sample(ks, min(len(ks), t - 1)))
    elif stratum == "untrusted_own":
        sign(attackers)
        sign(rng.sample(ks, min(len(ks), t - 1)))
    elif stratum == "union":
        for n in others:
            sign([k for k in rolekeys[n][0] if k.hex not in {x.hex for x in ks}])
        sign(rng.sample(ks, min(len(ks), t - 1)))
    elif stratum == "below":
        sign(rng.sample(ks, min(len(ks), t - 1)))
        rest = [k for k in ks if k.hex not in untrusted["signatures"]]
        if rest and rng.random() < 0.6:
            sign(rest[:1], rng.choice(gentries.invalid_states(gpg)))
        if rng.random() < 0.6:
            # verbatim copies of the good signers' entries, filed under other spellings and abbreviations of THEIR OWN keys (and of
            # listed keys that did not sign): one signer, however often and however labelled, is one signer
            good = [k for k in ks if k.hex in untrusted["signatures"] and k not in rest[:1]]
            for k in good:
                for sp in rng.sample(gkeys.respellings(k.hex), rng.randint(1, 4)):
                    untrusted["signatures"].setdefault(sp, copy.deepcopy(untrusted["signatures"][k.hex]))
            if good:
                for k in rest[1:2]:
                    for sp in rng.sample(gkeys.respellings(k.hex), 2):
                        untrusted["signatures"].setdefault(sp, copy.deepcopy(untrusted["signatures"][good[0].hex]))
    if stratum == "named_junk" or rng.random() < 0.25:
        for _ in range(rng.randint(1, 4)):
            k, v = gentries.junk_pair(rng)
            untrusted["signatures"].setdefault(k, v)
    if stratum == "trusted_malformed":
        # the trusted side must be well formed as a whole - also in delegations for OTHER roles and in its signature map
        sign(rng.sample(ks, rng.randint(min(t, len(ks)), len(ks))) if ks else [])
        dd = trusted["signed"]["delegations"]
        victim = rng.choice(list(dd))
        how = rng.choice(["key_trailing_newline", "key_upper", "key_short", "key_space", "dup_key", "threshold_0", "threshold_str", "extra_field",
                          "pubkeys_tuple", "del_expiration", "bad_date", "sig_value_junk", "envelope_extra", "type_unsupported", "key_mixed_case",
                          "timestamp_null", "version_null", "timestamp_empty", "expiration_null", "version_false", "version_zero", "timestamp_null",
                          "version_null"])
        # optional members that are PRESENT but hold nothing (null / "" / false / 0): present is present - they are malformed
        if how in ("timestamp_null", "timestamp_empty"):
            trusted["signed"]["timestamp"] = None if how == "timestamp_null" else ""
        elif how in ("version_null", "version_false", "version_zero"):
            trusted["signed"]["version"] = {"version_null": None, "version_false": False, "version_zero": 0}[how]
        elif how == "expiration_null":
            trusted["signed"]["expiration"] = None
        pk = dd[victim]["pubkeys"]
        if how.startswith("key_") and not pk:
            pk.append(U[0].hex)
        if how == "key_trailing_newline":
            pk[-1] = pk[-1][:-1] + "\n"
        elif how == "key_upper":
            pk[-1] = pk[-1].upper()
        elif how == "key_mixed_case":
            pk[-1] = pk[-1][:-1].replace("a", "A", 1) + pk[-1][-1] if "a" in pk[-1] else "Ab" + pk[-1][2:]
        elif how == "key_short":
            pk[-1] = pk[-1][:-2]
        elif how == "key_space":
            pk[-1] = pk[-1][:32] + " " + pk[-1][33:]
        elif how == "dup_key":
            pk.append(pk[-1] if pk else U[0].hex)
            if len(pk) == 1:
                pk.append(pk[0])
        elif how == "threshold_0":
            dd[victim]["threshold"] = 0
        elif how == "threshold_str":
            dd[victim]["threshold"] = "1"
        elif how == "extra_field":
            dd[victim]["keyids"] = []
        elif how == "pubkeys_tuple":
            dd[victim]["pubkeys"] = {k: 1 for k in pk}
        elif how == "del_expiration":
            del trusted["signed"]["expiration"]
        elif how == "bad_date":
            trusted["signed"]["expiration"] = "2031-07-13T05:46:+5Z"
        elif how == "sig_value_junk":
            trusted["signatures"]["junk"] = "x"
        elif how == "envelope_extra":
            trusted["extra"] = 1
        elif how == "type_unsupported":
            trusted["signed"]["type"] = "pkg_mgr"
    if kind == "delegating" and rng.random() < 0.06 and type(untrusted["signed"].get("version")) is int and untrusted["signed"]["version"] < 2**53:
        # the document is RESPELLED after it was signed: 3 -> 3.0 (another JSON value, other canonical bytes); the signatures were
        # made over the integer spelling and no longer cover what is presented
        untrusted["signed"]["version"] = float(untrusted["signed"]["version"])
        stratum = stratum + "+respelled-after-signing"
    items = list(untrusted["signatures"].items())
    rng.shuffle(items)
    untrusted["signatures"] = dict(items)
    case = {"kind": "deleg", "role": role, "untrusted": untrusted, "trusted": trusted, "gpg": gpg, "stratum": stratum,
            "ukind": kind}
    if extras:
        case["extras"] = True
    return case


def soften_for_extras(case, model):
    """see rootchain.soften_for_extras"""
    from . import rootchain

    return rootchain.soften_for_extras(case, model)


def model_of(case):
    m, failed = models.delegation_verdict(case["role"], copy.deepcopy(case["untrusted"]), copy.deepcopy(case["trusted"]), case["gpg"])
    return soften_for_extras(case, m), failed


def evaluate(case, lib, fn=None):
    trusted = copy.deepcopy(case["trusted"])
    untrusted = copy.deepcopy(case["untrusted"])
    role, gpg = case["role"], case["gpg"]
    model, failed = models.delegation_verdict(role, untrusted, trusted, gpg)
    before = boundary.fingerprint([role, untrusted, trusted])
    f = fn or lib.authentication.verify_delegation
    with hostile.stdout(case.get("stdout")) as hs:
        out = boundary.call(lib, f, role, untrusted, trusted, gpg=gpg)
    case["_stdout_write_attempts"] = hs.attempts
    model = hostile.adjust(model, case.get("stdout"))
    model = soften_for_extras(case, model)
    mutated = boundary.fingerprint([role, untrusted, trusted]) != before
    return model, failed, out, mutated


def brief(case):
    t = case["trusted"]["signed"]
    u = case["untrusted"]
    return {
        "stratum": case["stratum"], "role": case["role"], "gpg": case["gpg"],
        "trusted_type": t.get("type"),
        "trusted_roles": {n: "%d keys/t=%s" % (len(d["pubkeys"]), d["threshold"]) for n, d in t["delegations"].items()},
        "untrusted_type": u["signed"].get("type") if isinstance(u["signed"], dict) else type(u["signed"]).__name__,
        "untrusted_signers": [k[:8] for k in u["signatures"]][:8],
    }


def dkey(case, failed):
    t = case["trusted"]["signed"]["delegations"]
    return "%s|%s|%s|%s|%d|%s|%d" % (
        case["stratum"], case["gpg"], case["ukind"], ",".join(sorted(failed)) or "none", len(t),
        case["role"] in t, len(case["untrusted"]["signatures"]))
