"""Standard output that fails.

The verifiers print diagnostics ("Ignoring signature ...").  A process whose standard output is closed, full, a
broken pipe, a binary stream or unable to encode the text makes those prints RAISE.  Whatever the library then
does, it must not turn a rejection into an acceptance: under a failing stdout a judged call is held to the
soundness direction only (model REJECT -> no normal return); the statements do not say that a call which cannot
print must still accept, and the error family is then the print's, so neither is judged.

    with hostile.stdout("closed") as hs: ...      hs.attempts = writes attempted (evidence that the print was reached)
"""
import errno
import sys

from ..refs import models

MODES = ("closed", "enospc", "epipe", "binary", "encode", "attr")


class _Bad:
    encoding = "utf-8"
    errors = "strict"

    def __init__(self, mode):
        self.mode = mode
        self.attempts = 0
        self.closed = mode == "closed"

    def _boom(self, s=""):
        self.attempts += 1
        m = self.mode
        if m == "closed":
            raise ValueError("I/O operation on closed file.")
        if m == "enospc":
            raise OSError(errno.ENOSPC, "No space left on device")
        if m == "epipe":
            raise BrokenPipeError(errno.EPIPE, "Broken pipe")
        if m == "binary":
            raise TypeError("a bytes-like object is required, not 'str'")
        if m == "encode":
            raise UnicodeEncodeError("ascii", s if isinstance(s, str) and s else "x", 0, 1, "ordinal not in range(128)")
        raise AttributeError("'NoneType' object has no attribute 'write'")

    def write(self, s):
        self._boom(s)

    def writelines(self, lines):
        self._boom()

    def flush(self):
        if self.mode in ("closed",):
            self._boom()

    def isatty(self):
        return False

    def fileno(self):
        raise OSError("no descriptor")


class stdout:
    def __init__(self, mode):
        self.mode = mode
        self.bad = _Bad(mode) if mode else None
        self.attempts = 0
        self._saved = None

    def __enter__(self):
        if self.bad is not None:
            self._saved = sys.stdout
            sys.stdout = self.bad
        return self

    def __exit__(self, *a):
        if self.bad is not None:
            sys.stdout = self._saved
            self.attempts = self.bad.attempts


def adjust(model, mode):
    """the verdict the statements still require when stdout fails: rejections stay rejections (no error family),
    required acceptances become 'not judged'"""
    if not mode:
        return model
    if model.v == models.ACCEPT:
        return models.Verdict(models.GREY, None, "stdout fails: acceptance not demanded", model.counted, model.grey_counted)
    if model.v == models.REJECT:
        return models.Verdict(models.REJECT, None, model.why + " [stdout=%s]" % mode, model.counted, model.grey_counted)
    return model
