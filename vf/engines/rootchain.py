"""Root-chaining workload shared by C03 / C04 / C13: (trusted root, offered root) pairs
stratified by the rows of the rule's truth table, and offer generators relative to an
evolving trusted root (histories)."""
import copy

from . import hostile
from ..gen import entries as gentries, keys as gkeys, metadata as gmd
from ..monitors import boundary
from ..refs import canonjson, models, openpgp, schema

UNIVERSE = 8
# member names learned from the library's own code (gen.vocab), set by the property module at shard start; extra members
# named by them are offered inside the signed part of offered / trusted roots
EXTRA_NAMES = []


def uni():
    return [gkeys.key(i) for i in range(UNIVERSE)]


def gpg_entry(key, data, rng, state="valid"):
    return gentries.make_gpg(state, key, data, rng)


def signed_root(version, keys, t, signers, rng, km_keys=None, km_t=1, bad_signers=(), junk=0, md_type="root",
                extra=None, unauthorized=(), respelled_copies=()):
    """envelope of root metadata signed (OpenPGP-wrapped, reference signer) by `signers`"""
    km_keys = km_keys if km_keys is not None else [gkeys.key(7)]
    md = gmd.root_md(version, keys, t, km_keys, km_t)
    md["type"] = md_type
    if extra:
        md.update(extra)
    env = gmd.envelope(md)
    data = canonjson.canon(md)
    for k in signers:
        env["signatures"][k.hex] = gpg_entry(k, data, rng, rng.choice(gentries.valid_states(True)))
    for k in bad_signers:
        if k.hex not in env["signatures"]:
            st = rng.choice(["bitflip", "other_payload", "malleated", "hdr_flip", "boundary_shift", "other_key", "raw_sig_with_hdr",
                             "hugehdr_garbage_sig", "alg_sha512_declared_and_used", "alg_sha1_declared_and_used"])
            env["signatures"][k.hex] = gpg_entry(k, data, rng, st)
    for k in unauthorized:
        if k.hex not in env["signatures"]:
            env["signatures"][k.hex] = gpg_entry(k, data, rng, "valid")
    for k in respelled_copies:
        # a verbatim copy of a valid signer's entry filed under another spelling of its key (must not add a signer)
        if k.hex in env["signatures"]:
            sp = rng.choice([k.hex + "\n", " " + k.hex, k.hex + " ", k.hex.upper(), "\t" + k.hex, k.hex + "\u00a0", k.hex[:32] + " " + k.hex[32:]])
            env["signatures"][sp] = copy.deepcopy(env["signatures"][k.hex])
    for _ in range(junk):
        # junk under junk keys, but with WELL-FORMED values (anything else is a malformation of the metadata)
        jk = rng.choice([gkeys.junk_hexkey(rng), "junk%d" % rng.randrange(100), "\ud800", "é", ""])
        if jk not in env["signatures"]:
            env["signatures"][jk] = rng.choice([
                {"signature": "%0128x" % rng.getrandbits(512)},
                {"other_headers": "04001608", "signature": "%0128x" % rng.getrandbits(512)},
            ])
    order = list(env["signatures"].items())
    rng.shuffle(order)
    env["signatures"] = dict(order)
    return env


MALFORMATIONS = [
    "del_expiration", "del_type", "del_delegations", "del_spec", "del_version", "version_0", "version_str", "version_neg",
    "threshold_0", "threshold_str", "dup_key", "upper_key", "short_key", "type_unsupported", "extra_envelope_field",
    "sig_value_junk", "signed_list", "delegation_extra_field", "bad_expiration", "bad_timestamp", "pubkeys_not_list",
    "version_inf", "threshold_inf", "signatures_list", "type_int",
]


def malform(env, how, rng):
    env = copy.deepcopy(env)
    s = env["signed"]
    d = s.get("delegations", {})
    role = "root" if "root" in d else (list(d) or [None])[0]
    if how == "del_expiration":
        del s["expiration"]
    elif how == "del_type":
        del s["type"]
    elif how == "del_delegations":
        del s["delegations"]
    elif how == "del_spec":
        del s["metadata_spec_version"]
    elif how == "del_version":
        s.pop("version", None)  # root requires it
    elif how == "version_0":
        s["version"] = 0
    elif how == "version_neg":
        s["version"] = -1
    elif how == "version_str":
        s["version"] = str(s.get("version", 1))
    elif how == "version_inf":
        s["version"] = float("inf")
    elif how == "threshold_0":
        d[role]["threshold"] = 0
    elif how == "threshold_str":
        d[role]["threshold"] = "1"
    elif how == "threshold_inf":
        d[role]["threshold"] = float("inf")
    elif how == "dup_key":
        d[role]["pubkeys"] = d[role]["pubkeys"] + d[role]["pubkeys"][:1] if d[role]["pubkeys"] else ["ab" * 32, "ab" * 32]
    elif how == "upper_key":
        d[role]["pubkeys"] = [k.upper() for k in d[role]["pubkeys"]] or ["AB" * 32]
    elif how == "short_key":
        d[role]["pubkeys"] = [k[:-2] for k in d[role]["pubkeys"]] or ["ab" * 31]
    elif how == "type_unsupported":
        s["type"] = rng.choice(["other", "Root", "root ", "", "pkg_mgr"])
    elif how == "type_int":
        s["type"] = 5
    elif how == "extra_envelope_field":
        env["extra"] = 1
    elif how == "sig_value_junk":
        env["signatures"]["junk"] = rng.choice(["x", None, 5, {"signature": "zz"}, {}])
    elif how == "signed_list":
        env["signed"] = [s]
    elif how == "delegation_extra_field":
        d[role]["extra"] = 1
    elif how == "bad_expiration":
        s["expiration"] = rng.choice(["2021-13-01T00:00:00Z", "yesterday", "2021-01-01 00:00:00", 5, None, "2021-01-01T00:00:00"])
    elif how == "bad_timestamp":
        s["timestamp"] = rng.choice(["2021-02-30T00:00:00Z", "", 5, "2021-01-01T00:00:00+00:00"])
    elif how == "pubkeys_not_list":
        d[role]["pubkeys"] = {k: 1 for k in d[role]["pubkeys"]}
    elif how == "signatures_list":
        env["signatures"] = list(env["signatures"].items())
    else:
        raise ValueError(how)
    return env


ROWS = ["accept", "version", "old_rule", "new_rule", "type", "new_malformed", "trusted_malformed", "no_root_delegation",
        "two"]


def gen_pair(rng, row=None):
    """returns case {"kind":"rootpair","trusted":env,"new":env,"row":row}"""
    U = uni()
    rng.shuffle(U)
    if row is None:
        row = rng.choice(["accept", "accept", "accept", "version", "old_rule", "old_rule", "new_rule", "new_rule", "type",
                          "new_malformed", "trusted_malformed", "no_root_delegation", "two"])
    v = rng.choice([1, 1, 2, 3, 7, 41, 2**31 - 1, 2**53, 10**20, 2**1024, 10**400])
    nK = rng.randint(1, 3)
    K = U[:nK]
    t = rng.randint(1, nK)
    if row in ("old_rule", "two") and rng.random() < 0.35:
        t = nK + rng.randint(1, 2)  # legal shape (drafts): threshold above the number of listed keys - can never be met
    # new key set: same / rotated / superset / disjoint
    mode = rng.choice(["same", "rotate", "superset", "disjoint", "subset"])
    if mode == "same":
        K2 = list(K)
    elif mode == "rotate":
        K2 = K[1:] + [U[nK]]
    elif mode == "superset":
        K2 = K + [U[nK], U[nK + 1]]
    elif mode == "subset":
        K2 = K[:1]
    else:
        K2 = U[nK:nK + rng.randint(1, 3)]
    t2 = rng.randint(1, len(K2))
    trusted = signed_root(v, K, t, rng.sample(K, rng.randint(0, nK)), rng, junk=rng.choice([0, 0, 1]))
    fails = {row} if row not in ("accept", "two") else set()
    if row == "two":
        fails = set(rng.sample(["version", "old_rule", "new_rule", "type"], 2))
    v2 = v + 1
    if "version" in fails:
        v2 = rng.choice([v - 1, v, v + 2, 1 if v != 0 else 5, 10**9, v + 10, 2 * v + 5])
        if v2 == v + 1:
            v2 = v + 2
        if v2 < 1:
            v2 = v  # keep schema-valid: replay of the same version
    # choose signers
    old_ok = "old_rule" not in fails
    new_ok = "new_rule" not in fails
    signers = set()
    if old_ok:
        if t > len(K):
            t = len(K)
            trusted = signed_root(v, K, t, rng.sample(K, rng.randint(0, nK)), rng, junk=rng.choice([0, 0, 1]))
        signers.update(k.hex for k in rng.sample(K, rng.randint(t, len(K))))
    else:
        signers.update(k.hex for k in rng.sample(K, min(len(K), t - 1)))
    k2only = [k for k in K2 if k.hex not in {x.hex for x in K}]
    if new_ok:
        have = [k for k in K2 if k.hex in signers]
        need = t2 - len(have)
        cand = [k for k in K2 if k.hex not in signers]
        if not old_ok:
            cand = [k for k in cand if k.hex not in {x.hex for x in K}]  # must not repair the old rule
        if need > len(cand):
            # cannot satisfy new rule without repairing old: lower t2
            t2 = len(have) + len(cand)
            if t2 < 1:
                K2 = K2 + [U[7]]
                cand = [U[7]] if U[7].hex not in {x.hex for x in K} else []
                t2 = max(1, len(have) + len(cand))
            need = t2 - len(have)
        signers.update(k.hex for k in cand[:max(0, need)])
        # optionally more
        for k in cand[max(0, need):]:
            if rng.random() < 0.3:
                signers.add(k.hex)
    else:
        # new rule must fail: fewer than t2 valid among K2
        have = [k for k in K2 if k.hex in signers]
        if len(have) >= t2:
            # raise t2 / extend K2 with non-signing keys until it fails
            extra = [k for k in U if k.hex not in signers and k.hex not in {x.hex for x in K2} and k.hex not in {x.hex for x in K}]
            while len(have) >= t2 and (len(K2) < len(have) + 1 or t2 <= len(have)):
                if len(K2) <= len(have) and extra:
                    K2 = K2 + [extra.pop()]
                t2 = len(have) + 1
                if t2 > len(K2):
                    if extra:
                        K2 = K2 + [extra.pop()]
                    else:
                        break
    if not new_ok and rng.random() < 0.4:
        # the new root demands more signers than it lists; every listed key signs (and further entries follow)
        t2 = len(K2) + 1
        signers.update(k.hex for k in K2 if (old_ok or k.hex not in {x.hex for x in K}))
    bykey = {k.hex: k for k in U}
    signer_keys = [bykey[h] for h in signers]
    bad = [k for k in (K + K2) if k.hex not in signers and rng.random() < 0.4]
    unauth = [k for k in U if k.hex not in {x.hex for x in K + K2} and rng.random() < 0.25]
    new_type = "root"
    trusted_type_flip = False
    if "type" in fails:
        if rng.random() < 0.7:
            new_type = "key_mgr"
        else:
            trusted_type_flip = True
    extras = None
    if EXTRA_NAMES and rng.random() < 0.3:
        # members the stated rule says nothing about, under every name the library's code mentions, holding values that refer to
        # this scenario's keys (were such a member to exempt, retire, add or re-weigh keys, a failing rule could pass)
        nonsigners = [k.hex for k in K if k.hex not in signers]
        val = rng.choice([nonsigners, nonsigners, [k.hex for k in K], sorted(signers), [k.hex for k in K2], [k.hex for k in U],
                          (nonsigners or [K[0].hex])[0], {h: True for h in nonsigners}, {h: 1 for h in signers}, 1, True, "strict", [], 0,
                          {"root": {"pubkeys": sorted(signers), "threshold": 1}}])
        extras = {n: copy.deepcopy(val) for n in EXTRA_NAMES}
        if rng.random() < 0.3 and isinstance(trusted.get("signed"), dict):
            trusted["signed"].update(copy.deepcopy(extras))
    new = signed_root(v2, K2, t2, signer_keys, rng, bad_signers=bad, junk=rng.choice([0, 0, 1, 3]), md_type=new_type,
                      unauthorized=unauth, respelled_copies=signer_keys if rng.random() < 0.35 else (), extra=extras)
    if rng.random() < 0.3 and isinstance(trusted.get("signed"), dict) and isinstance(new.get("signed"), dict):
        # decoy delegations whose names resemble "root" (other roles as far as the rule is concerned), delegating to a key
        # the attacker holds; its valid signature is on the offer
        att = next((k for k in U if k.hex not in {x.hex for x in K + K2}), None)
        if att is not None:
            name = rng.choice(["root.json", "Root", "root ", " root", "ROOT", "root\x00", "roots", "r\u043eot", "root.json", "1.root", ""])
            where = rng.choice(["trusted", "new", "both"])
            if where in ("trusted", "both") and isinstance(trusted["signed"].get("delegations"), dict):
                trusted["signed"]["delegations"][name] = gmd.delegation([att], 1)
            if where in ("new", "both") and isinstance(new["signed"].get("delegations"), dict):
                # changing the offered payload invalidates its signatures: re-sign with the same signer set
                md = copy.deepcopy(new["signed"])
                md["delegations"][name] = gmd.delegation([att], 1)
                if set(new["signatures"]) >= {k.hex for k in signer_keys} and "new_malformed" not in fails and "no_root_delegation" not in fails:
                    data = canonjson.canon(md)
                    new = gmd.envelope(md, {k: v for k, v in new["signatures"].items() if k not in {x.hex for x in signer_keys}})
                    for k in signer_keys:
                        new["signatures"][k.hex] = gpg_entry(k, data, rng)
            if isinstance(new.get("signatures"), dict) and isinstance(new.get("signed"), dict):
                new["signatures"][att.hex] = gpg_entry(att, canonjson.canon(new["signed"]), rng)
    if trusted_type_flip:
        trusted["signed"]["type"] = "key_mgr"
    if "new_malformed" in fails:
        new = malform(new, rng.choice(MALFORMATIONS), rng)
    if "trusted_malformed" in fails:
        trusted = malform(trusted, rng.choice(MALFORMATIONS), rng)
    if "no_root_delegation" in fails:
        which = rng.choice(["new", "trusted", "both"])
        if which in ("new", "both"):
            # re-sign so that only the missing delegation is wrong
            md = copy.deepcopy(new["signed"])
            del md["delegations"]["root"]
            new = gmd.envelope(md)
            data = canonjson.canon(md)
            for k in signer_keys:
                new["signatures"][k.hex] = gpg_entry(k, data, rng)
        if which in ("trusted", "both"):
            del trusted["signed"]["delegations"]["root"]
    case = {"kind": "rootpair", "trusted": trusted, "new": new, "row": row}
    if extras:
        case["extras"] = True
    return case


def soften_for_extras(case, model):
    """documents carrying members outside the stated schema: a version of the library may give them a meaning of its own and
    refuse, or name its own reason first - the stated rule only says when an offer must NOT be accepted"""
    if not case.get("extras"):
        return model
    if model.v == models.ACCEPT:
        return models.Verdict(models.GREY, None, (model.why or "") + " (extra members present: acceptance not demanded)")
    if model.v == models.REJECT:
        return models.Verdict(models.REJECT, None, model.why, model.counted, model.grey_counted)
    return model


def model_of(case, trusted=None, new=None):
    m, failed = models.root_verdict(copy.deepcopy(case["trusted"]) if trusted is None else trusted, copy.deepcopy(case["new"]) if new is None else new)
    return soften_for_extras(case, m), failed


def evaluate(case, lib, fn=None):
    trusted = copy.deepcopy(case["trusted"])
    new = copy.deepcopy(case["new"])
    model, failed = models.root_verdict(trusted, new)
    before = boundary.fingerprint([trusted, new])
    f = fn or lib.authentication.verify_root
    with hostile.stdout(case.get("stdout")) as hs:
        out = boundary.call(lib, f, trusted, new)
    case["_stdout_write_attempts"] = hs.attempts
    model = hostile.adjust(model, case.get("stdout"))
    model = soften_for_extras(case, model)
    mutated = boundary.fingerprint([trusted, new]) != before
    return model, failed, out, mutated


def brief(case):
    def b(env):
        if not isinstance(env, dict) or not isinstance(env.get("signed"), dict):
            return "<malformed>"
        s = env["signed"]
        d = s.get("delegations", {}).get("root", {}) if isinstance(s.get("delegations"), dict) else {}
        return {
            "type": s.get("type"), "version": s.get("version"),
            "root_keys": [k[:6] for k in d.get("pubkeys", [])] if isinstance(d.get("pubkeys"), list) else d.get("pubkeys"),
            "root_threshold": d.get("threshold"),
            "signed_by": [k[:6] if isinstance(k, str) else k for k in env.get("signatures", {})] if isinstance(env.get("signatures"), dict) else "?",
        }
    return {"row": case.get("row"), "trusted": b(case["trusted"]), "new": b(case["new"])}
