"""Histories over LONG-LIVED argument objects that the caller mutates in place between
calls (the verdict must depend on what the arguments say *now*, not on what the same
object said at an earlier call).  Shared by C01 / C05 / C12."""
import copy

from ..gen import entries as gentries, jsonvals, keys as gkeys, metadata as gmd
from ..monitors import boundary
from ..refs import canonjson, models


def delegation_history(rng, lib, rec, prop, steps=10):
    """one trusted dict T, mutated in place; returns list of violations (mechanism, msg, case)"""
    A = lib.authentication
    U = [gkeys.key(i) for i in range(8)]
    rng.shuffle(U)
    gpg = rng.random() < 0.3
    role = rng.choice(["key_mgr", "pkg_mgr", "root"])
    other = "other_role"
    ks, t = U[:2], rng.randint(1, 2)
    T = gmd.envelope(gmd.delegating(rng.choice(["root", "key_mgr"]), {role: gmd.delegation(ks, t), other: gmd.delegation(U[2:3], 1)},
                                    version=1))
    # the untrusted document stays the same; its signers vary
    if role in ("root", "key_mgr"):
        usigned = gmd.delegating(role, {}, version=rng.randint(1, 5))
    else:
        usigned = {"name": "pkg", "n": rng.randrange(100)}
    data = canonjson.canon(usigned)
    log = []
    out = []
    cur_keys, cur_t = list(ks), t
    for step in range(steps):
        op = rng.choice(["none", "rotate_entry", "raise_threshold", "replace_pubkeys", "append_key", "remove_key", "remove_role",
                         "restore_role", "update_doc", "replace_delegations", "malform", "repair"])
        dels = T["signed"].get("delegations") if isinstance(T.get("signed"), dict) else None
        try:
            if op == "rotate_entry" and isinstance(dels, dict):
                cur_keys = [rng.choice(U[3:7])] + cur_keys[:1]
                cur_t = rng.randint(1, len(cur_keys))
                dels[role] = gmd.delegation(cur_keys, cur_t)
            elif op == "raise_threshold" and isinstance(dels, dict) and role in dels:
                cur_t = min(len(dels[role]["pubkeys"]) + 1, dels[role]["threshold"] + 1)
                dels[role]["threshold"] = cur_t
            elif op == "replace_pubkeys" and isinstance(dels, dict) and role in dels:
                cur_keys = rng.sample(U, rng.randint(1, 3))
                dels[role]["pubkeys"] = [k.hex for k in cur_keys]
                dels[role]["threshold"] = cur_t = rng.randint(1, len(cur_keys))
            elif op == "append_key" and isinstance(dels, dict) and role in dels:
                k = rng.choice(U)
                if k.hex not in dels[role]["pubkeys"]:
                    dels[role]["pubkeys"].append(k.hex)
            elif op == "remove_key" and isinstance(dels, dict) and role in dels and len(dels[role]["pubkeys"]) > 1:
                dels[role]["pubkeys"].pop(0)
            elif op == "remove_role" and isinstance(dels, dict) and role in dels:
                del dels[role]
            elif op == "restore_role" and isinstance(dels, dict) and role not in dels:
                dels[role] = gmd.delegation(cur_keys, cur_t)
            elif op == "update_doc":
                cur_keys = rng.sample(U, 2)
                cur_t = rng.randint(1, 2)
                new = gmd.envelope(gmd.delegating(T["signed"].get("type", "root") if isinstance(T.get("signed"), dict) else "root",
                                                  {role: gmd.delegation(cur_keys, cur_t)}, version=step + 2))
                T.update(new)
            elif op == "replace_delegations" and isinstance(T.get("signed"), dict):
                cur_keys = rng.sample(U, 2)
                cur_t = 1
                T["signed"]["delegations"] = {role: gmd.delegation(cur_keys, cur_t), "x": gmd.delegation([], 1)}
            elif op == "malform" and isinstance(T.get("signed"), dict):
                T["signed"].pop("expiration", None)
            elif op == "repair" and isinstance(T.get("signed"), dict):
                T["signed"]["expiration"] = "2031-01-01T00:00:00Z"
        except Exception:
            pass
        # the untrusted side: signed by a random subset of everything
        signers = rng.sample(U, rng.randint(0, 4))
        Uenv = gmd.envelope(copy.deepcopy(usigned))
        for k in signers:
            Uenv["signatures"][k.hex] = gentries.make("valid", gpg, k, data, rng, usigned)
        model, failed = models.delegation_verdict(role, copy.deepcopy(Uenv), copy.deepcopy(T), gpg)
        fp = boundary.fingerprint(T)
        o = boundary.call(lib, A.verify_delegation, role, Uenv, T, gpg=gpg)
        log.append(op)
        rec.count("inplace_delegation_calls")
        rec.hist("inplace_op", op)
        case = {"kind": "inplace_deleg", "ops": list(log), "role": role, "gpg": gpg, "trusted_now": copy.deepcopy(T),
                "untrusted": copy.deepcopy(Uenv)}
        if boundary.fingerprint(T) != fp:
            out.append(("argument-mutation/verify_delegation/long-lived-trusted-dict", "verify_delegation modified the trusted dict", case))
        if model.v == models.GREY:
            continue
        if (model.v == models.ACCEPT) != o.accepted:
            kind = "unsound-accept" if o.accepted else "false-reject"
            out.append(("stale-arguments/%s/verify_delegation/after-inplace-%s" % (kind, op),
                        "after in-place change %r of the long-lived trusted dict (history %s): library %s, model on the CURRENT content %s (%s)"
                        % (op, "->".join(log[-4:]), o.brief(), model.v, model.why), case))
            break
    return out


def envelope_history(rng, lib, rec, steps=10):
    """long-lived envelope and authorized list mutated in place between verify_signable calls"""
    A = lib.authentication
    U = [gkeys.key(i) for i in range(6)]
    gpg = rng.random() < 0.4
    payload = {"name": "p", "nested": {"list": [1, 2, {"deep": "x"}]}, "n": 1}
    env = gmd.envelope(payload)
    auth = [U[0].hex, U[1].hex]
    t = 1
    out, log = [], []

    def sign(k):
        env["signatures"][k.hex] = gentries.make("valid", gpg, k, canonjson.canon(env["signed"]), rng, env["signed"])

    sign(U[0])
    for step in range(steps):
        op = rng.choice(["none", "edit_nested", "edit_top", "resign", "add_signer", "drop_entry", "auth_append", "auth_remove",
                         "auth_replace_item", "swap_payload", "restore_nested"])
        if op == "edit_nested":
            env["signed"]["nested"]["list"][2]["deep"] = "edited%d" % step
        elif op == "restore_nested":
            env["signed"]["nested"]["list"][2]["deep"] = "x"
        elif op == "edit_top":
            env["signed"]["n"] = env["signed"].get("n", 0) + 1
        elif op == "resign":
            for h in list(env["signatures"]):
                k = next((x for x in U if x.hex == h), None)
                if k:
                    sign(k)
        elif op == "add_signer":
            sign(rng.choice(U))
        elif op == "drop_entry" and env["signatures"]:
            env["signatures"].pop(next(iter(env["signatures"])))
        elif op == "auth_append":
            k = rng.choice(U).hex
            if k not in auth:
                auth.append(k)
        elif op == "auth_remove" and len(auth) > 1:
            auth.pop(0)
        elif op == "auth_replace_item":
            auth[0] = rng.choice([k.hex for k in U if k.hex not in auth] or [auth[0]])
        elif op == "swap_payload":
            env["signed"] = {"name": "q", "nested": {"list": [1, 2, {"deep": "x"}]}, "n": step}
        t = rng.randint(1, 2)
        model = models.threshold_verdict(copy.deepcopy(env), list(auth), t, gpg)
        fp = boundary.fingerprint([env, auth])
        o = boundary.call(lib, A.verify_signable, env, auth, t, gpg=gpg)
        log.append(op)
        rec.count("inplace_envelope_calls")
        case = {"kind": "inplace_env", "ops": list(log), "env_now": copy.deepcopy(env), "auth_now": list(auth), "t": t, "gpg": gpg}
        if boundary.fingerprint([env, auth]) != fp:
            out.append(("argument-mutation/verify_signable/long-lived-arguments", "verify_signable modified its arguments", case))
        if model.v == models.GREY:
            continue
        if (model.v == models.ACCEPT) != o.accepted:
            kind = "unsound-accept" if o.accepted else "false-reject"
            out.append(("stale-arguments/%s/verify_signable/after-inplace-%s" % (kind, op),
                        "after in-place change %r of a long-lived argument (history %s): library %s, model on the CURRENT content %s (%d counted, t=%d)"
                        % (op, "->".join(log[-4:]), o.brief(), model.v, len(model.counted), t), case))
            break
    return out
