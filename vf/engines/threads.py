"""Thread stress for the envelope verifier: many threads verify DIFFERENT envelopes
(genuine and forged) concurrently, with sys.monitoring yield injection between library
lines; every outcome is compared with the reference model of that call alone."""
import random
import threading

from ..monitors import boundary, sysmon
from ..refs import models
from . import envelope


def run(lib, rng, n_cases, T, rec, seed):
    """returns list of (case, model, outcome)"""
    cases = []
    while len(cases) < n_cases:
        # a mix that makes cross-talk visible: accepting envelopes next to forged / below-threshold ones
        st = rng.choice(["accept", "accept", "sole:threshold", "sole:authorization", "sole:crypto", "mixed"])
        c = envelope.gen_case(rng, stratum=st)
        sig, auth, t, gpg = envelope.materialise(c, lib)
        m = models.threshold_verdict(sig, auth, t, gpg)
        if m.v == models.GREY:
            continue
        cases.append((c, m, (sig, auth, t, gpg)))
    results = [None] * len(cases)
    order = list(range(len(cases)))
    rng.shuffle(order)
    slices = [order[i::T] for i in range(T)]
    A = lib.authentication
    errors = []
    start = threading.Barrier(T)

    def worker(t):
        try:
            start.wait()
            for i in slices[t]:
                sig, auth, thr, gpg = cases[i][2]
                results[i] = boundary.call(lib, A.verify_signable, sig, auth, thr, gpg=gpg)
        except BaseException as e:  # noqa: BLE001
            errors.append("%s: %s" % (type(e).__name__, e))

    inj = sysmon.YieldInjector(lib.pkg_dir, random.Random(seed), prob=0.05)
    with inj:
        ths = [threading.Thread(target=worker, args=(t,)) for t in range(T)]
        for th in ths:
            th.start()
        for th in ths:
            th.join(600)
    if any(th.is_alive() for th in ths):
        rec.inconclusive_because("thread workload did not finish within the watchdog")
        return []
    if errors:
        rec.inconclusive_because("thread harness error: " + errors[0])
        return []
    rec.count("threaded_verifications", len(cases))
    rec.count("context_switches_inside_library", inj.switches)
    rec.count("distinct_switch_points", len(inj.switch_points))
    if inj.switches == 0:
        rec.inconclusive_because("no context switch inside library code observed under %d threads" % T)
    return [(cases[i][0], cases[i][1], results[i]) for i in range(len(cases)) if results[i] is not None]


def run_delegation(lib, rng, n_cases, T, rec, seed):
    """concurrent verify_delegation calls for DIFFERENT roles / documents; each judged by the model of its own call"""
    from . import delegation

    cases = []
    while len(cases) < n_cases:
        c = delegation.gen_case(rng, stratum=rng.choice(["named", "named", "below", "other_role", "union", "untrusted_own", "type_confusion"]))
        m, failed = delegation.model_of(c)
        if m.v == models.GREY:
            continue
        cases.append((c, m))
    results = [None] * len(cases)
    order = list(range(len(cases)))
    rng.shuffle(order)
    slices = [order[i::T] for i in range(T)]
    A = lib.authentication
    errors = []
    start = threading.Barrier(T)

    def worker(t):
        try:
            start.wait()
            for i in slices[t]:
                c = cases[i][0]
                results[i] = boundary.call(lib, A.verify_delegation, c["role"], c["untrusted"], c["trusted"], gpg=c["gpg"])
        except BaseException as e:  # noqa: BLE001
            errors.append("%s: %s" % (type(e).__name__, e))

    inj = sysmon.YieldInjector(lib.pkg_dir, random.Random(seed), prob=0.05)
    with inj:
        ths = [threading.Thread(target=worker, args=(t,)) for t in range(T)]
        for th in ths:
            th.start()
        for th in ths:
            th.join(600)
    if any(th.is_alive() for th in ths):
        rec.inconclusive_because("thread workload did not finish within the watchdog")
        return []
    if errors:
        rec.inconclusive_because("thread harness error: " + errors[0])
        return []
    rec.count("threaded_verifications", len(cases))
    rec.count("context_switches_inside_library", inj.switches)
    if inj.switches == 0:
        rec.inconclusive_because("no context switch inside library code observed under %d threads" % T)
    return [(cases[i][0], cases[i][1], results[i]) for i in range(len(cases)) if results[i] is not None]


def run_calls(lib, jobs, T, rec, seed, prob=0.1, label=""):
    """generic schedule workload: jobs = [(fn, args, kwargs)], distributed over T threads that run concurrently with
    yield injection at library lines; returns the outcomes in job order (None where a job did not run).  The caller
    judges every outcome by the oracle of that call alone."""
    results = [None] * len(jobs)
    order = list(range(len(jobs)))
    random.Random(seed).shuffle(order)
    slices = [order[i::T] for i in range(T)]
    errors = []
    start = threading.Barrier(T)

    def worker(t):
        try:
            start.wait()
            for i in slices[t]:
                fn, args, kwargs = jobs[i]
                results[i] = boundary.call(lib, fn, *args, **kwargs)
        except BaseException as e:  # noqa: BLE001
            errors.append("%s: %s" % (type(e).__name__, e))

    inj = sysmon.YieldInjector(lib.pkg_dir, random.Random(seed), prob=prob)
    with inj:
        ths = [threading.Thread(target=worker, args=(t,)) for t in range(T)]
        for th in ths:
            th.start()
        for th in ths:
            th.join(600)
    if any(th.is_alive() for th in ths):
        rec.inconclusive_because("thread workload %s did not finish within the watchdog" % label)
        return None
    if errors:
        rec.inconclusive_because("thread harness error (%s): %s" % (label, errors[0]))
        return None
    rec.count("threaded_calls", len(jobs))
    rec.count("context_switches_inside_library", inj.switches)
    if inj.switches == 0 and len(jobs) >= 4 * T:
        rec.inconclusive_because("no context switch inside library code observed under %d threads (%s)" % (T, label))
    return results
