"""Load the library under test from the *current working tree* ($CCT_REPO or /repo)."""
import hashlib
import importlib
import importlib.util
import os
import sys
import types


def repo_dir():
    return os.path.realpath(os.environ.get("CCT_REPO", "/repo"))


def tree_hash(repo=None):
    repo = repo or repo_dir()
    h = hashlib.sha256()
    pkg = os.path.join(repo, "conda_content_trust")
    for fn in sorted(os.listdir(pkg)):
        if fn.endswith(".py"):
            h.update(fn.encode())
            with open(os.path.join(pkg, fn), "rb") as f:
                h.update(f.read())
    for extra in ("pyproject.toml",):
        p = os.path.join(repo, extra)
        if os.path.exists(p):
            with open(p, "rb") as f:
                h.update(f.read())
    return h.hexdigest()[:16]


class Lib:
    """handle on one imported instance of the library"""

    MODS = ("common", "authentication", "signing", "metadata_construction", "root_signing", "cli")

    def __init__(self, pkgname, repo):
        self.pkgname = pkgname
        self.repo = repo
        self.pkg_dir = os.path.join(repo, "conda_content_trust") + os.sep
        self.missing = []
        for m in self.MODS:
            try:
                mod = importlib.import_module(pkgname + "." + m)
            except Exception as e:  # noqa: BLE001
                mod = None
                self.missing.append((m, repr(e)))
            setattr(self, m, mod)

    def fn(self, dotted):
        """'authentication.verify_signable' -> current attribute (late bound)"""
        m, f = dotted.split(".", 1)
        mod = getattr(self, m)
        obj = mod
        for part in f.split("."):
            obj = getattr(obj, part)
        return obj

    def has(self, dotted):
        try:
            self.fn(dotted)
            return True
        except Exception:
            return False


_MAIN = None


def load(preimport=()):
    """import the library from the working tree into this process (once)"""
    global _MAIN
    if _MAIN is not None:
        return _MAIN
    repo = repo_dir()
    if repo not in sys.path:
        sys.path.insert(0, repo)
    for m in preimport:
        importlib.import_module(m)
    import conda_content_trust

    f = os.path.realpath(conda_content_trust.__file__)
    if not f.startswith(repo + os.sep):
        raise RuntimeError("library imported from %s, expected under %s" % (f, repo))
    _MAIN = Lib("conda_content_trust", repo)
    return _MAIN


_ALIAS_N = [0]


def fresh_instance():
    """re-execute the package from source under an alias: a second, independent
    module instance (own functions, classes, module globals) in the same process."""
    repo = repo_dir()
    _ALIAS_N[0] += 1
    alias = "cct_fresh_%d" % _ALIAS_N[0]
    pkg_path = os.path.join(repo, "conda_content_trust")
    spec = importlib.util.spec_from_file_location(
        alias, os.path.join(pkg_path, "__init__.py"), submodule_search_locations=[pkg_path]
    )
    mod = importlib.util.module_from_spec(spec)
    sys.modules[alias] = mod
    spec.loader.exec_module(mod)
    return Lib(alias, repo)


def drop_instance(lib):
    for k in [k for k in sys.modules if k == lib.pkgname or k.startswith(lib.pkgname + ".")]:
        del sys.modules[k]


def fs_names(names):
    """file names the current filesystem encoding can express (a shard may run under LC_ALL=C without UTF-8 mode)"""
    out = []
    for n in names:
        try:
            os.fsencode(n)
            out.append(n)
        except (UnicodeEncodeError, ValueError):
            pass
    return out or ["plain"]
