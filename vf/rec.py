"""Per-shard recorder: what the monitors observed.  Serialised to JSON and merged by
the parent."""
import hashlib
import json
import math


def _h(key):
    if not isinstance(key, (str, bytes)):
        key = json.dumps(key, sort_keys=True, default=repr)
    if isinstance(key, str):
        key = key.encode("utf-8", "surrogatepass")
    return hashlib.blake2b(key, digest_size=6).hexdigest()


def jsonable(o, depth=0):
    """make any sample safe for strict JSON (no NaN tokens, no lone surrogates,
    no non-JSON types)"""
    if depth > 60:
        return "<deep>"
    if o is None or isinstance(o, bool):
        return o
    if isinstance(o, int):
        if abs(o) > 10**40:
            return {"$int": "%d digits" % len(str(abs(o)))}
        return o
    if isinstance(o, float):
        if math.isnan(o):
            return {"$f": "nan"}
        if math.isinf(o):
            return {"$f": "inf" if o > 0 else "-inf"}
        return o
    if isinstance(o, str):
        if len(o) > 400:
            o = o[:400] + "...<%d chars>" % len(o)
        try:
            o.encode("utf-8")
            return o
        except UnicodeEncodeError:
            return {"$s": o.encode("unicode_escape").decode("ascii")}
    if isinstance(o, (bytes, bytearray, memoryview)):
        b = bytes(o)
        return {"$py": type(o).__name__, "hex": b[:64].hex() + ("..." if len(b) > 64 else "")}
    if isinstance(o, dict):
        out = {}
        for i, (k, v) in enumerate(o.items()):
            if i >= 40:
                out["..."] = "%d more" % (len(o) - 40)
                break
            kk = jsonable(k, depth + 1)
            if not isinstance(kk, str):
                kk = json.dumps(kk, sort_keys=True)
            out[kk] = jsonable(v, depth + 1)
        return out
    if isinstance(o, (list, tuple)):
        r = [jsonable(v, depth + 1) for v in list(o)[:40]]
        if len(o) > 40:
            r.append("...%d more" % (len(o) - 40))
        return r
    return {"$py": type(o).__name__, "repr": repr(o)[:120]}


class Recorder:
    MAX_SAMPLES = 4
    MAX_VIOLATIONS = 40

    def __init__(self, prop):
        self.prop = prop
        self.evaluations = 0
        self.distinct = set()
        self.counters = {}
        self.hists = {}
        self.samples = []
        self.violations = []
        self.inconclusive = []
        self.extra = {}
        self._viol_mechs = {}
        self.ticker = None  # optional: unrelated library activity, run between judged cases (see vf/engines/noise.py)
        self.tick_every = 64
        self._in_tick = False

    def _maybe_tick(self):
        import sys
        import threading

        if self.ticker is None or self._in_tick or threading.current_thread() is not threading.main_thread():
            return
        try:
            if sys.monitoring.get_tool(sys.monitoring.DEBUGGER_ID) is not None:
                return  # a census / failpoint / probe is recording: not now
        except Exception:  # noqa: BLE001
            return
        self._in_tick = True
        try:
            self.ticker()
            self.counters["background_noise_ticks"] = self.counters.get("background_noise_ticks", 0) + 1
        finally:
            self._in_tick = False

    # -- coverage -----------------------------------------------------------------
    def case(self, distinct_key=None, nontrivial=True, n=1):
        """one evaluated case; distinct_key identifies it up to the per-property
        distinctness rule; trivial cases are counted as evaluations only"""
        self.evaluations += n
        if nontrivial and distinct_key is not None:
            self.distinct.add(_h(distinct_key))
        if self.ticker is not None and self.evaluations % self.tick_every < n:
            self._maybe_tick()

    def count(self, name, n=1):
        self.counters[name] = self.counters.get(name, 0) + n

    def hist(self, name, key, n=1):
        d = self.hists.setdefault(name, {})
        key = str(key)
        d[key] = d.get(key, 0) + n

    def sample(self, obj, force=False):
        if force or len(self.samples) < self.MAX_SAMPLES:
            self.samples.append(jsonable(obj))

    # -- verdicts -----------------------------------------------------------------
    def violation(self, mechanism, message, case):
        """case: JSON-able replay document {"kind":..., ...}"""
        self.count("violations_raw")
        n = self._viol_mechs.get(mechanism, 0)
        self._viol_mechs[mechanism] = n + 1
        if n >= 3 or len(self.violations) >= self.MAX_VIOLATIONS:
            return
        self.violations.append({"mechanism": mechanism, "message": message, "case": case})

    def inconclusive_because(self, reason):
        if reason not in self.inconclusive:
            self.inconclusive.append(reason)

    def dump(self):
        return {
            "prop": self.prop,
            "evaluations": self.evaluations,
            "distinct": sorted(self.distinct),
            "counters": self.counters,
            "hists": self.hists,
            "samples": self.samples,
            "violations": self.violations,
            "viol_mechs": self._viol_mechs,
            "inconclusive": self.inconclusive,
            "extra": self.extra,
        }


class Merged:
    def __init__(self, prop):
        self.prop = prop
        self.evaluations = 0
        self.distinct = set()
        self.counters = {}
        self.hists = {}
        self.samples = []
        self.violations = []
        self.viol_mechs = {}
        self.inconclusive = []
        self.extras = []  # list of (spec, extra)
        self.shards = 0

    def add(self, spec, d):
        self.shards += 1
        self.evaluations += d["evaluations"]
        self.distinct.update(d["distinct"])
        for k, v in d["counters"].items():
            self.counters[k] = self.counters.get(k, 0) + v
        for hn, hd in d["hists"].items():
            t = self.hists.setdefault(hn, {})
            for k, v in hd.items():
                t[k] = t.get(k, 0) + v
        if len(self.samples) < 8:
            self.samples.extend(d["samples"][:2])
        self.violations.extend(d["violations"])
        for k, v in d.get("viol_mechs", {}).items():
            self.viol_mechs[k] = self.viol_mechs.get(k, 0) + v
        for r in d["inconclusive"]:
            if r not in self.inconclusive:
                self.inconclusive.append(r)
        self.extras.append((spec, d["extra"]))

    # same API as Recorder for finish() hooks
    def violation(self, mechanism, message, case):
        self.viol_mechs[mechanism] = self.viol_mechs.get(mechanism, 0) + 1
        self.violations.append({"mechanism": mechanism, "message": message, "case": case})

    def inconclusive_because(self, reason):
        if reason not in self.inconclusive:
            self.inconclusive.append(reason)

    def count(self, name, n=1):
        self.counters[name] = self.counters.get(name, 0) + n
