#!/venv/bin/python
"""Entry point of the runtime-monitoring checks.

  check.py <Cxx> [--tier quick|thorough] [--replay FILE]
  check.py --selftest

exit 0: property held on everything observed; 1: VIOLATION line(s) printed;
2: INCONCLUSIVE (a deciding monitor observed nothing, a reference self-test failed,
or a wall-clock watchdog fired).  Environment: VERIF_SEED, VERIF_TIER, CCT_REPO.
"""
import argparse
import os
import sys

HERE = os.path.dirname(os.path.abspath(__file__))
sys.path.insert(0, HERE)
os.environ.setdefault("PYTHONDONTWRITEBYTECODE", "1")
sys.dont_write_bytecode = True


def main():
    ap = argparse.ArgumentParser()
    ap.add_argument("prop", nargs="?")
    ap.add_argument("--tier", default=os.environ.get("VERIF_TIER") or "quick")
    ap.add_argument("--replay")
    ap.add_argument("--selftest", action="store_true")
    ap.add_argument("--jobs", type=int)
    a = ap.parse_args()
    from vf import harness, lib

    if a.selftest:
        from vf.refs import selftest

        r = selftest.run(lib.repo_dir())
        print("selftest:", r or "ok")
        return 2 if r else 0
    if not a.prop:
        ap.error("property id required")
    prop = a.prop.upper()
    if a.tier not in ("quick", "thorough"):
        ap.error("tier must be quick or thorough")
    seed_s = os.environ.get("VERIF_SEED", "")
    try:
        seed = int(seed_s) if seed_s.strip() else harness.DEFAULT_SEED
    except ValueError:
        seed = harness.DEFAULT_SEED
    if a.replay:
        return harness.replay(prop, a.replay)
    return harness.run_check(prop, a.tier, seed, a.jobs)


if __name__ == "__main__":
    sys.exit(main())
