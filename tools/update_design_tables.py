#!/venv/bin/python
"""Regenerates the generated parts of DESIGN.md: the coverage tables (between the coverage-table markers) and the
summary sentence of the AST mutation sweep (between the automutate markers)."""
import json
import os
import subprocess
import sys

HERE = os.path.dirname(os.path.dirname(os.path.abspath(__file__)))


def between(s, a, b, new):
    i, j = s.index(a) + len(a), s.index(b)
    return s[:i] + "\n" + new.strip("\n") + "\n" + s[j:]


def main():
    p = os.path.join(HERE, "DESIGN.md")
    s = open(p, encoding="utf-8").read()
    table = subprocess.run([sys.executable, os.path.join(HERE, "tools", "coverage_table.py")], stdout=subprocess.PIPE, check=True).stdout.decode()
    s = between(s, "<!-- coverage-table:begin -->", "<!-- coverage-table:end -->", table)
    sm = os.path.join(HERE, "mutants", "auto", "summary.json")
    if os.path.exists(sm) and "<!-- automutate:begin -->" in s:
        d = json.load(open(sm))
        c = d["counts"]
        total = sum(c.values())
        txt = ("Last run: %d mutants generated; %d killed by the repository's own suite, %d not importable / unchanged; of the %d that survive "
               "the suite, %d are reported by a check (%s) and %d by none. The %d survivors are listed in `mutants/auto/summary.json` and "
               "classified in 10c below."
               % (total, c.get("killed-by-suite", 0), total - c.get("killed-by-suite", 0) - d["survive_suite"], d["survive_suite"], d["caught"],
                  ", ".join("%s %d" % kv for kv in sorted(d["caught_by"].items())), len(d["not_caught"]), len(d["not_caught"])))
        s = between(s, "<!-- automutate:begin -->", "<!-- automutate:end -->", txt)
    open(p, "w", encoding="utf-8").write(s)
    print("DESIGN.md tables regenerated")


if __name__ == "__main__":
    main()
