#!/venv/bin/python
"""Systematic mutation sweep of the library (self-test of the monitors; nothing is ever changed in /repo).

  tools/automutate.py gen                      enumerate AST mutants of the core modules -> mutants/auto/sites.json
  tools/automutate.py run [--slice i/n]        for each mutant: scratch worktree, write the mutated module, run the repository's
                                               suite (mutants it kills are dropped), then the quick checks - most relevant
                                               first - until one fires; results -> mutants/auto/results-<i>.json
  tools/automutate.py report                   merge results -> mutants/auto/summary.json + a table of survivors

Operators: comparison swaps, and/or swap, negation removal, condition forced True/False, small integer constants +-1,
statements (raise / continue / break / bare call) replaced by pass, return value replaced by None.
"""
import argparse
import ast
import copy
import json
import os
import re
import shutil
import subprocess
import sys
import tempfile
import time

HERE = os.path.dirname(os.path.dirname(os.path.abspath(__file__)))
OUT = os.path.join(HERE, "mutants", "auto")
PY = "/venv/bin/python"
FILES = ["authentication.py", "signing.py", "common.py", "metadata_construction.py", "root_signing.py", "cli.py"]
ALL = ["C%02d" % i for i in range(1, 20)]

# which checks to try first for a mutation inside a given function (the rest follow in numeric order)
FIRST = {
    "verify_signable": ["C01", "C02", "C13", "C12"], "verify_root": ["C03", "C04", "C13"], "verify_delegation": ["C05", "C06", "C13"],
    "verify_signature": ["C01", "C02", "C13"], "verify_gpg_signature": ["C10", "C01", "C03", "C13"],
    "canonserialize": ["C07", "C08", "C09"], "load_metadata_from_file": ["C08", "C02"], "write_metadata_to_file": ["C08", "C18", "C07"],
    "wrap_as_signable": ["C09", "C12"], "sign_signable": ["C09", "C08"], "serialize_and_sign": ["C09", "C11", "C19"],
    "sign_all_in_repodata": ["C11", "C18", "C17"], "build_delegating_metadata": ["C16"], "build_root_metadata": ["C16"],
    "gen_and_write_keys": ["C19"], "gen_keys": ["C19"], "keyfiles_to_bytes": ["C19"], "keyfiles_to_keys": ["C19"],
    "checkformat_delegating_metadata": ["C14", "C06", "C13", "C16"], "iso8601_time_plus_delta": ["C16"],
    "sign_root_metadata_via_gpg": ["C10", "C18", "C08", "C17"], "sign_root_metadata_dict_via_gpg": ["C10", "C08"], "sign_via_gpg": ["C10"],
    "fetch_keyval_from_gpg": ["C10"], "cli": ["C17", "C04", "C18"], "interactive_modify_metadata": ["C08", "C17"],
}
BY_FILE = {"cli.py": ["C17", "C04", "C18", "C08"], "root_signing.py": ["C10", "C18", "C08", "C17"], "signing.py": ["C09", "C11", "C18", "C17"],
           "metadata_construction.py": ["C16", "C19"], "authentication.py": ["C01", "C03", "C05", "C10", "C13"],
           "common.py": ["C15", "C14", "C19", "C13", "C07", "C01", "C16"]}

CMP = {ast.Eq: ast.NotEq, ast.NotEq: ast.Eq, ast.Lt: ast.LtE, ast.LtE: ast.Lt, ast.Gt: ast.GtE, ast.GtE: ast.Gt,
       ast.In: ast.NotIn, ast.NotIn: ast.In, ast.Is: ast.IsNot, ast.IsNot: ast.Is}


def is_docstring(node, parent):
    return isinstance(node, ast.Expr) and isinstance(node.value, ast.Constant) and isinstance(node.value.value, str)


def sites(tree):
    """list of (path-index, op, lineno, function) over a deterministic walk"""
    out = []
    func_of = {}

    def mark(node, fn):
        for ch in ast.iter_child_nodes(node):
            f = ch.name if isinstance(ch, (ast.FunctionDef, ast.AsyncFunctionDef)) else fn
            func_of[id(ch)] = f
            mark(ch, f)

    mark(tree, "<module>")
    for idx, node in enumerate(ast.walk(tree)):
        fn = func_of.get(id(node), "<module>")
        ln = getattr(node, "lineno", 0)
        if isinstance(node, ast.Compare) and len(node.ops) == 1 and type(node.ops[0]) in CMP:
            out.append((idx, "cmp-swap", ln, fn))
            if isinstance(node.ops[0], (ast.Lt, ast.LtE, ast.Gt, ast.GtE)):
                out.append((idx, "cmp-flip", ln, fn))
        elif isinstance(node, ast.BoolOp):
            out.append((idx, "boolop-swap", ln, fn))
        elif isinstance(node, ast.UnaryOp) and isinstance(node.op, ast.Not):
            out.append((idx, "not-removed", ln, fn))
        elif isinstance(node, (ast.If, ast.While)):
            out.append((idx, "cond-false", ln, fn))
            if isinstance(node, ast.If):
                out.append((idx, "cond-true", ln, fn))
        elif isinstance(node, ast.Constant) and type(node.value) is int and 0 <= node.value <= 130:
            out.append((idx, "const+1", ln, fn))
            if node.value > 0:
                out.append((idx, "const-1", ln, fn))
        elif isinstance(node, (ast.Raise, ast.Continue, ast.Break)):
            out.append((idx, "stmt-to-pass", ln, fn))
        elif isinstance(node, ast.Expr) and isinstance(node.value, ast.Call):
            f = node.value.func
            name = f.id if isinstance(f, ast.Name) else (f.attr if isinstance(f, ast.Attribute) else "")
            if name not in ("print", "input", "debug", "warn"):
                out.append((idx, "call-to-pass", ln, fn))
        elif isinstance(node, ast.Return) and node.value is not None and not (isinstance(node.value, ast.Constant) and node.value.value is None):
            out.append((idx, "return-none", ln, fn))
    return out


def mutate(src, idx, op):
    tree = ast.parse(src)
    target = None
    for i, node in enumerate(ast.walk(tree)):
        if i == idx:
            target = node
            break
    if target is None:
        return None

    class T(ast.NodeTransformer):
        def generic_visit(self, node):
            if node is target:
                return self.apply(node)
            return super().generic_visit(node)

        def apply(self, n):
            if op == "cmp-swap":
                n.ops = [CMP[type(n.ops[0])]()]
            elif op == "cmp-flip":
                n.ops = [{ast.Lt: ast.Gt, ast.LtE: ast.GtE, ast.Gt: ast.Lt, ast.GtE: ast.LtE}[type(n.ops[0])]()]
            elif op == "boolop-swap":
                n.op = ast.Or() if isinstance(n.op, ast.And) else ast.And()
            elif op == "not-removed":
                return n.operand
            elif op == "cond-false":
                n.test = ast.Constant(False)
            elif op == "cond-true":
                n.test = ast.Constant(True)
            elif op == "const+1":
                return ast.copy_location(ast.Constant(n.value + 1), n)
            elif op == "const-1":
                return ast.copy_location(ast.Constant(n.value - 1), n)
            elif op in ("stmt-to-pass", "call-to-pass"):
                return ast.copy_location(ast.Pass(), n)
            elif op == "return-none":
                n.value = ast.Constant(None)
            return n

    new = T().visit(tree)
    ast.fix_missing_locations(new)
    return ast.unparse(new)


def gen():
    os.makedirs(OUT, exist_ok=True)
    allm = []
    for fn in FILES:
        src = open(os.path.join("/repo/conda_content_trust", fn), encoding="utf-8").read()
        tree = ast.parse(src)
        for idx, op, ln, func in sites(tree):
            allm.append({"id": "%s:%d:%s:%d" % (fn, ln, op, idx), "file": fn, "idx": idx, "op": op, "line": ln, "func": func})
    json.dump(allm, open(os.path.join(OUT, "sites.json"), "w"), indent=0)
    print(len(allm), "mutation sites")
    from collections import Counter

    print(Counter(m["file"] for m in allm))
    print(Counter(m["op"] for m in allm))


def stable_pass():
    return set(json.load(open("/root/.vp/BASELINE.json"))["stable_pass"])


def run_suite(d):
    j = os.path.join(d, "junit_am.xml")
    if os.path.exists(j):
        os.remove(j)
    try:
        subprocess.run([PY, "-m", "pytest", "-q", "-p", "no:cacheprovider", "-o", "addopts=", "--timeout=120", "--benchmark-disable",
                        "--continue-on-collection-errors", "--junitxml=" + j],
                       cwd=d, env=dict(os.environ, PYTHONPATH=d, PYTHONDONTWRITEBYTECODE="1"), stdout=subprocess.DEVNULL, stderr=subprocess.DEVNULL,
                       timeout=600)
    except subprocess.TimeoutExpired:
        return ["<suite timed out>"]
    import xml.etree.ElementTree as ET

    passed = set()
    try:
        for tc in ET.parse(j).getroot().iter("testcase"):
            if not list(tc):
                passed.add("%s::%s" % (tc.get("classname"), tc.get("name")))
    except Exception:
        return ["<no junit>"]
    return sorted(stable_pass() - passed)


def order_for(m):
    first = FIRST.get(m["func"], []) + BY_FILE.get(m["file"], [])
    seen, out = set(), []
    for p in first + ALL:
        if p not in seen:
            seen.add(p)
            out.append(p)
    return out


def run(slice_, limit=None, only_ops=None):
    i, n = (int(x) for x in slice_.split("/"))
    allm = json.load(open(os.path.join(OUT, "sites.json")))
    mine = [m for k, m in enumerate(allm) if k % n == i]
    if only_ops:
        mine = [m for m in mine if m["op"] in only_ops]
    if limit:
        mine = mine[:limit]
    resf = os.path.join(OUT, "results-%d.json" % i)
    results = json.load(open(resf)) if os.path.exists(resf) else {}
    d = tempfile.mkdtemp(prefix="cct_am_")
    os.rmdir(d)
    subprocess.run(["git", "-C", "/repo", "worktree", "add", "-q", "--detach", d, "HEAD"], check=True)
    try:
        for m in mine:
            if m["id"] in results:
                continue
            p = os.path.join(d, "conda_content_trust", m["file"])
            orig = open(os.path.join("/repo/conda_content_trust", m["file"]), encoding="utf-8").read()
            r = {"func": m["func"], "op": m["op"], "line": m["line"]}
            try:
                new = mutate(orig, m["idx"], m["op"])
                compile(new, p, "exec")
            except Exception as e:  # noqa: BLE001
                r["status"] = "does-not-compile"
                results[m["id"]] = r
                continue
            if ast.dump(ast.parse(new)) == ast.dump(ast.parse(orig)):
                r["status"] = "no-change"
                results[m["id"]] = r
                continue
            open(p, "w", encoding="utf-8").write(new)
            try:
                t0 = time.time()
                imp = subprocess.run([PY, "-c", "import conda_content_trust.cli, conda_content_trust.root_signing"], cwd=d,
                                     env=dict(os.environ, PYTHONPATH=d, PYTHONDONTWRITEBYTECODE="1"), stdout=subprocess.DEVNULL, stderr=subprocess.DEVNULL)
                if imp.returncode != 0:
                    r["status"] = "does-not-import"
                    results[m["id"]] = r
                    continue
                broken = run_suite(d)
                if broken:
                    r["status"] = "killed-by-suite"
                    r["suite_broken"] = len(broken)
                    results[m["id"]] = r
                    continue
                r["status"] = "survives-suite"
                fired, tried = None, []
                for pid in order_for(m):
                    pr = subprocess.run([PY, os.path.join(HERE, "check.py"), pid, "--tier", "quick"], cwd=HERE, env=dict(os.environ, CCT_REPO=d),
                                        stdout=subprocess.PIPE, stderr=subprocess.STDOUT)
                    tried.append("%s:%d" % (pid, pr.returncode))
                    if pr.returncode == 1:
                        fired = pid
                        mech = re.findall(r"witness mechanism=(\S+)", pr.stdout.decode("utf-8", "replace"))
                        r["mechanism"] = mech[0] if mech else None
                        break
                r["fired"] = fired
                r["tried"] = tried
                r["wall_s"] = round(time.time() - t0, 1)
                results[m["id"]] = r
                print("%-50s %-28s %s" % (m["id"], m["func"], ("FIRED " + fired) if fired else "SURVIVES ALL CHECKS"))
                sys.stdout.flush()
            finally:
                open(p, "w", encoding="utf-8").write(orig)
                json.dump(results, open(resf, "w"), indent=0)
    finally:
        subprocess.run(["git", "-C", "/repo", "worktree", "remove", "--force", d], stdout=subprocess.DEVNULL, stderr=subprocess.DEVNULL)
        shutil.rmtree(d, ignore_errors=True)
        shutil.rmtree(os.path.join(tempfile.gettempdir(), "vf_out_other_tree", os.path.basename(d.rstrip("/"))), ignore_errors=True)


def rerun(slice_):
    """run the CURRENT checks again on every mutant that survives the repository suite (results of earlier runs may stem
    from earlier versions of the checks); results -> rerun-<i>.json"""
    i, n = (int(x) for x in slice_.split("/"))
    allm = {m["id"]: m for m in json.load(open(os.path.join(OUT, "sites.json")))}
    res = {}
    for fn in sorted(os.listdir(OUT)):
        if fn.startswith("results-"):
            res.update(json.load(open(os.path.join(OUT, fn))))
    todo = sorted(k for k, r in res.items() if r["status"] == "survives-suite")
    mine = [k for j, k in enumerate(todo) if j % n == i]
    outf = os.path.join(OUT, "rerun-%d.json" % i)
    out = json.load(open(outf)) if os.path.exists(outf) else {}
    d = tempfile.mkdtemp(prefix="cct_am_")
    os.rmdir(d)
    subprocess.run(["git", "-C", "/repo", "worktree", "add", "-q", "--detach", d, "HEAD"], check=True)
    try:
        for k in mine:
            if k in out:
                continue
            m = allm[k]
            p = os.path.join(d, "conda_content_trust", m["file"])
            orig = open(os.path.join("/repo/conda_content_trust", m["file"]), encoding="utf-8").read()
            open(p, "w", encoding="utf-8").write(mutate(orig, m["idx"], m["op"]))
            r = dict(res[k])
            try:
                fired, tried = None, []
                # the check that fired last time first
                order = ([res[k]["fired"]] if res[k].get("fired") else []) + [x for x in order_for(m) if x != res[k].get("fired")]
                for pid in order:
                    pr = subprocess.run([PY, os.path.join(HERE, "check.py"), pid, "--tier", "quick"], cwd=HERE, env=dict(os.environ, CCT_REPO=d),
                                        stdout=subprocess.PIPE, stderr=subprocess.STDOUT)
                    tried.append("%s:%d" % (pid, pr.returncode))
                    if pr.returncode == 1:
                        fired = pid
                        mech = re.findall(r"witness mechanism=(\S+)", pr.stdout.decode("utf-8", "replace"))
                        r["mechanism"] = mech[0] if mech else None
                        break
                r["fired"], r["tried"] = fired, tried
                if not fired:
                    r.pop("mechanism", None)
                out[k] = r
                print("%-50s %-28s %s" % (k, m["func"], ("FIRED " + fired) if fired else "SURVIVES ALL CHECKS"))
                sys.stdout.flush()
            finally:
                open(p, "w", encoding="utf-8").write(orig)
                json.dump(out, open(outf, "w"), indent=0)
    finally:
        subprocess.run(["git", "-C", "/repo", "worktree", "remove", "--force", d], stdout=subprocess.DEVNULL, stderr=subprocess.DEVNULL)
        shutil.rmtree(d, ignore_errors=True)
        shutil.rmtree(os.path.join(tempfile.gettempdir(), "vf_out_other_tree", os.path.basename(d.rstrip("/"))), ignore_errors=True)


def report():
    from collections import Counter

    res = {}
    for fn in sorted(os.listdir(OUT)):
        if fn.startswith("results-"):
            res.update(json.load(open(os.path.join(OUT, fn))))
    for fn in sorted(os.listdir(OUT)):
        if fn.startswith("rerun-"):
            res.update(json.load(open(os.path.join(OUT, fn))))  # the re-run with the current checks supersedes
    c = Counter(r["status"] for r in res.values())
    surv = {k: r for k, r in res.items() if r["status"] == "survives-suite"}
    caught = {k: r for k, r in surv.items() if r.get("fired")}
    missed = {k: r for k, r in surv.items() if not r.get("fired")}
    print("mutants run: %d  %s" % (len(res), dict(c)))
    print("survive the repository suite: %d   caught by a check: %d   not caught: %d" % (len(surv), len(caught), len(missed)))
    print("caught by:", dict(Counter(r["fired"] for r in caught.values())))
    for k, r in sorted(missed.items()):
        print("  NOT CAUGHT  %-46s in %s" % (k, r["func"]))
    json.dump({"counts": dict(c), "survive_suite": len(surv), "caught": len(caught), "not_caught": sorted(missed),
               "caught_by": dict(Counter(r["fired"] for r in caught.values()))}, open(os.path.join(OUT, "summary.json"), "w"), indent=1)


def main():
    ap = argparse.ArgumentParser()
    ap.add_argument("cmd")
    ap.add_argument("--slice", default="0/1")
    ap.add_argument("--limit", type=int)
    ap.add_argument("--ops")
    a = ap.parse_args()
    if a.cmd == "gen":
        gen()
    elif a.cmd == "run":
        run(a.slice, a.limit, a.ops.split(",") if a.ops else None)
    elif a.cmd == "rerun":
        rerun(a.slice)
    elif a.cmd == "report":
        report()


if __name__ == "__main__":
    main()
