#!/venv/bin/python
"""Every repaired defect comes back when its repair is taken out - and is reported again.

For each `fixed:` line of known_findings.txt: a scratch worktree of /repo's HEAD, `git revert --no-commit <commit>` of that one
repair (all other repairs stay), the quick check of the property named on the line, and the question whether a witness whose
mechanism matches the line's pattern is reported.  Nothing is applied to /repo; results go to mutants/fix_reverts.json.

  tools/fix_reverts.py            run all
"""
import fnmatch
import json
import os
import re
import shutil
import subprocess
import sys
import tempfile

HERE = os.path.dirname(os.path.dirname(os.path.abspath(__file__)))
PY = "/venv/bin/python"


def main():
    lines = []
    for ln in open(os.path.join(HERE, "known_findings.txt")):
        m = re.match(r"fixed: property=(C\d+) ([0-9a-f]{7,}) mechanism=(\S+) (.*)", ln)
        if m:
            lines.append(m.groups())
    by = {}
    for prop, sha, pat, what in lines:
        by.setdefault((sha, prop), []).append((pat, what))
    out = []
    bad = 0
    for (sha, prop), pats in sorted(by.items()):
        d = tempfile.mkdtemp(prefix="cct_revert_")
        os.rmdir(d)
        subprocess.run(["git", "-C", "/repo", "worktree", "add", "-q", "--detach", d, "HEAD"], check=True)
        try:
            r = subprocess.run(["git", "-C", d, "revert", "--no-commit", sha], stdout=subprocess.PIPE, stderr=subprocess.STDOUT)
            if r.returncode != 0:
                out.append({"commit": sha, "property": prop, "result": "revert did not apply: " + r.stdout.decode()[-200:]})
                bad += 1
                continue
            p = subprocess.run([PY, os.path.join(HERE, "check.py"), prop], cwd=HERE, env=dict(os.environ, CCT_REPO=d),
                               stdout=subprocess.PIPE, stderr=subprocess.STDOUT)
            text = p.stdout.decode("utf-8", "replace")
            mechs = sorted(set(re.findall(r"witness mechanism=(\S+)", text)))
            for pat, what in pats:
                hit = [m for m in mechs if fnmatch.fnmatch(m, pat)]
                ok = p.returncode == 1 and bool(hit)
                bad += 0 if ok else 1
                out.append({"commit": sha, "property": prop, "pattern": pat, "what": what[:100], "exit": p.returncode,
                            "reported_again": ok, "matching_mechanisms": hit[:3], "all_mechanisms": len(mechs)})
                print("%s %s %-5s %s" % (sha, prop, "again" if ok else "MISSED", pat))
                sys.stdout.flush()
        finally:
            subprocess.run(["git", "-C", "/repo", "worktree", "remove", "--force", d], stdout=subprocess.DEVNULL, stderr=subprocess.DEVNULL)
            shutil.rmtree(d, ignore_errors=True)
            shutil.rmtree(os.path.join(tempfile.gettempdir(), "vf_out_other_tree", os.path.basename(d)), ignore_errors=True)
    json.dump(out, open(os.path.join(HERE, "mutants", "fix_reverts.json"), "w"), indent=1)
    print("%d lines, %d not reported again" % (len(out), bad))
    return 1 if bad else 0


if __name__ == "__main__":
    sys.exit(main())
