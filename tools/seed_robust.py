#!/venv/bin/python
"""Own-check detection of one seeded change at a given VERIF_SEED (nothing is recorded in meta.json).

  tools/seed_robust.py <seeded-id> <seed>
  ls seeded | xargs -P 5 -I{} tools/seed_robust.py {} 7
"""
import os
import subprocess
import sys

sys.path.insert(0, os.path.dirname(os.path.abspath(__file__)))
import seeded as S  # noqa: E402


def main():
    sid, seed = sys.argv[1], sys.argv[2]
    m = S.load_meta(sid)
    pid = m.get("breaks_property")
    d = S.tree(os.path.join(S.SEEDED, sid, "patch.diff"))
    try:
        p = subprocess.run([S.PY, os.path.join(S.HERE, "check.py"), pid], cwd=S.HERE, env=dict(os.environ, CCT_REPO=d, VERIF_SEED=seed),
                           stdout=subprocess.PIPE, stderr=subprocess.STDOUT)
        print("%s %s seed=%s %s" % (sid, pid, seed, {0: "silent", 1: "FIRED", 2: "inconcl"}.get(p.returncode, p.returncode)))
    finally:
        S.drop(d)


if __name__ == "__main__":
    main()
