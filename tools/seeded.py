#!/venv/bin/python
"""Seeded changes written by independent sub-agents: import, confirm, run checks.

  tools/seeded.py import <agent-dir> <id> <property>     copy patch.diff / demo.py / NOTES.md into seeded/<id>/
  tools/seeded.py confirm <id>|all                       scratch worktree: demo clean -> PASS, patched -> FAIL, suite unchanged
  tools/seeded.py check <id>|all [--tier quick] [--props C01,C02] [--all-props]
                                                         run checks against the patched scratch worktree (CCT_REPO)
Nothing is ever applied to /repo.  Results are merged into seeded/<id>/meta.json.
"""
import argparse
import json
import os
import re
import shutil
import subprocess
import sys
import tempfile
import time

HERE = os.path.dirname(os.path.dirname(os.path.abspath(__file__)))
SEEDED = os.path.join(HERE, os.environ.get("VF_SEEDED_DIR", "seeded"))  # VF_SEEDED_DIR=benign: behaviour-preserving refactorings (all checks must stay silent)
PY = "/venv/bin/python"
ALL = ["C%02d" % i for i in range(1, 20)]


def tree(patch=None):
    d = tempfile.mkdtemp(prefix="cct_seed_")
    os.rmdir(d)
    subprocess.run(["git", "-C", "/repo", "worktree", "add", "-q", "--detach", d, "HEAD"], check=True)
    if patch:
        p = subprocess.run(["git", "-C", d, "apply", patch], stdout=subprocess.PIPE, stderr=subprocess.STDOUT)
        if p.returncode != 0:
            drop(d)
            raise SystemExit("patch does not apply: " + p.stdout.decode())
    return d


def drop(d):
    shutil.rmtree(os.path.join(tempfile.gettempdir(), "vf_out_other_tree", os.path.basename(d.rstrip("/"))), ignore_errors=True)
    subprocess.run(["git", "-C", "/repo", "worktree", "remove", "--force", d], stdout=subprocess.DEVNULL, stderr=subprocess.DEVNULL)
    shutil.rmtree(d, ignore_errors=True)


def run_demo(d, demo):
    shutil.copy(demo, os.path.join(d, "demo_seeded.py"))
    p = subprocess.run([PY, "demo_seeded.py"], cwd=d, env=dict(os.environ, PYTHONPATH=d, PYTHONDONTWRITEBYTECODE="1"),
                       stdout=subprocess.PIPE, stderr=subprocess.STDOUT, timeout=600)
    return p.returncode, p.stdout.decode("utf-8", "replace")[-600:]


def run_suite(d):
    j = os.path.join(d, "junit_seeded.xml")
    subprocess.run([PY, "-m", "pytest", "-q", "-p", "no:cacheprovider", "-o", "addopts=", "--timeout=900",
                    "--continue-on-collection-errors", "--junitxml=" + j],
                   cwd=d, env=dict(os.environ, PYTHONPATH=d, PYTHONDONTWRITEBYTECODE="1"), stdout=subprocess.PIPE, stderr=subprocess.STDOUT)
    import xml.etree.ElementTree as ET

    passed = set()
    for tc in ET.parse(j).getroot().iter("testcase"):
        if not list(tc):
            passed.add("%s::%s" % (tc.get("classname"), tc.get("name")))
    base = json.load(open("/root/.vp/BASELINE.json"))["stable_pass"]
    return [t for t in base if t not in passed]


def load_meta(sid):
    p = os.path.join(SEEDED, sid, "meta.json")
    return json.load(open(p)) if os.path.exists(p) else {}


def save_meta(sid, m):
    with open(os.path.join(SEEDED, sid, "meta.json"), "w") as f:
        json.dump(m, f, indent=1, sort_keys=True)


def ids(sel):
    if sel == "all":
        return sorted(x for x in os.listdir(SEEDED) if os.path.isdir(os.path.join(SEEDED, x)))
    return [sel]


def main():
    ap = argparse.ArgumentParser()
    ap.add_argument("cmd")
    ap.add_argument("a", nargs="?")
    ap.add_argument("b", nargs="?")
    ap.add_argument("c", nargs="?")
    ap.add_argument("--tier", default="quick")
    ap.add_argument("--props")
    ap.add_argument("--all-props", action="store_true")
    a = ap.parse_args()
    if a.cmd == "import":
        src, sid, prop = a.a, a.b, a.c
        dst = os.path.join(SEEDED, sid)
        os.makedirs(dst, exist_ok=True)
        shutil.copy(os.path.join(src, "patch.diff"), os.path.join(dst, "patch.diff"))
        demo = "seeded_demo.py" if os.path.exists(os.path.join(src, "seeded_demo.py")) else "demo.py"
        if os.path.exists(os.path.join(src, "equivalence_check.py")):
            shutil.copy(os.path.join(src, "equivalence_check.py"), os.path.join(dst, "equivalence_check.py"))
        else:
            shutil.copy(os.path.join(src, demo), os.path.join(dst, "demo.py"))
        if os.path.exists(os.path.join(src, "NOTES.md")):
            shutil.copy(os.path.join(src, "NOTES.md"), os.path.join(dst, "NOTES.md"))
        m = load_meta(sid)
        m.update({"id": sid, "breaks_property" if "benign" not in SEEDED else "refactors_code_of": prop,
                  "origin": "independent sub-agent given only the property text and a scratch worktree"})
        save_meta(sid, m)
        print("imported", sid)
        return 0
    if a.cmd == "confirm":
        for sid in ids(a.a):
            sd = os.path.join(SEEDED, sid)
            m = load_meta(sid)
            d = tree()
            try:
                rc0, out0 = run_demo(d, os.path.join(sd, "demo.py"))
            finally:
                drop(d)
            d = tree(os.path.join(sd, "patch.diff"))
            try:
                rc1, out1 = run_demo(d, os.path.join(sd, "demo.py"))
                missing = run_suite(d)
            finally:
                drop(d)
            ok = rc0 == 0 and rc1 != 0 and not missing
            m["confirmed"] = {
                "demo_clean_exit": rc0, "demo_patched_exit": rc1, "stable_tests_broken_by_patch": missing, "ok": ok,
                "ran": ["git worktree add <scratch> HEAD; PYTHONPATH=<scratch> python demo.py  (clean)",
                        "git apply patch.diff; PYTHONPATH=<scratch> python demo.py  (patched)",
                        "PYTHONPATH=<scratch> python -m pytest -q -p no:cacheprovider -o addopts= (patched; compared with BASELINE stable_pass)"],
                "demo_patched_tail": out1[-300:],
            }
            save_meta(sid, m)
            print("%-28s clean=%s patched=%s suite_broken=%d -> %s" % (sid, rc0, rc1, len(missing), "CONFIRMED" if ok else "NOT CONFIRMED"))
        return 0
    if a.cmd == "check":
        for sid in ids(a.a):
            sd = os.path.join(SEEDED, sid)
            m = load_meta(sid)
            props = ALL if a.all_props else (a.props.split(",") if a.props else [m.get("breaks_property") or m.get("refactors_code_of")])
            d = tree(os.path.join(sd, "patch.diff"))
            res = m.setdefault("checks", {}).setdefault(a.tier, {})
            try:
                line = "%-28s" % sid
                for pid in props:
                    t0 = time.time()
                    p = subprocess.run([PY, os.path.join(HERE, "check.py"), pid, "--tier", a.tier], cwd=HERE,
                                       env=dict(os.environ, CCT_REPO=d), stdout=subprocess.PIPE, stderr=subprocess.STDOUT)
                    out = p.stdout.decode("utf-8", "replace")
                    mechs = sorted(set(re.findall(r"witness mechanism=(\S+)", out)))
                    res[pid] = {"exit": p.returncode, "mechanisms": mechs[:6], "wall_s": round(time.time() - t0, 1)}
                    line += " %s:%s" % (pid, {0: "silent", 1: "FIRED", 2: "inconcl"}.get(p.returncode, p.returncode))
                print(line)
                sys.stdout.flush()
            finally:
                drop(d)
            save_meta(sid, m)
        return 0
    ap.error("unknown command")


if __name__ == "__main__":
    sys.exit(main())
