#!/venv/bin/python
"""Renders 'which checks catch which changes' (Markdown) from seeded/*/meta.json and mutants/last_run.json."""
import json
import os

HERE = os.path.dirname(os.path.dirname(os.path.abspath(__file__)))


def main():
    out = []
    out.append("| seeded change (independent sub-agent) | breaks | needs, to manifest | fired (quick tier) |")
    out.append("|---|---|---|---|")
    sd = os.path.join(HERE, "seeded")
    for sid in sorted(os.listdir(sd)):
        mp = os.path.join(sd, sid, "meta.json")
        if not os.path.exists(mp):
            continue
        m = json.load(open(mp))
        q = m.get("checks", {}).get("quick", {})
        fired = sorted(p for p, r in q.items() if r["exit"] == 1)
        silent_own = m["breaks_property"] not in fired
        out.append("| `%s` | %s | %s | %s%s |" % (sid, m["breaks_property"], m.get("needs", "see NOTES.md"), " ".join(fired) or "-",
                                                 " (own check SILENT)" if silent_own else ""))
    out.append("")
    lr = os.path.join(HERE, "mutants", "last_run.json")
    if os.path.exists(lr):
        res = json.load(open(lr))
        out.append("| catalogue mutant | change | repository suite | fired |")
        out.append("|---|---|---|---|")
        for name, r in res.items():
            fired = sorted(p for p, c in r["checks"].items() if c["exit"] == 1)
            missed = sorted(p for p in r["expect"] if p not in fired)
            out.append("| `%s` | %s | %s | %s%s |" % (name, r["what"], r["suite"], " ".join(fired) or "-", (" (missed: %s)" % " ".join(missed)) if missed else ""))
    print("\n".join(out))


if __name__ == "__main__":
    main()
