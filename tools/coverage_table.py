#!/venv/bin/python
"""Renders 'which checks catch which changes' (Markdown) from seeded/*/meta.json and mutants/last_run.json."""
import json
import os

HERE = os.path.dirname(os.path.dirname(os.path.abspath(__file__)))


def main():
    out = []
    out.append("| seeded change (independent sub-agent) | written against | needs, to manifest | blind | reported by (quick tier) |")
    out.append("|---|---|---|---|---|")
    sd = os.path.join(HERE, "seeded")
    for sid in sorted(os.listdir(sd)):
        mp = os.path.join(sd, sid, "meta.json")
        if not os.path.exists(mp):
            continue
        m = json.load(open(mp))
        q = m.get("checks", {}).get("quick", {})
        own = m["breaks_property"]
        fired = sorted(p for p, r in q.items() if r["exit"] == 1)
        others = [p for p in fired if p != own]
        col = ("**%s**" % own if own in fired else "(%s silent)" % own) + ((" " + " ".join(others)) if others else "")
        blind = str(m.get("first_run_own_check", "?")).split(" ")[0]
        out.append("| `%s` | %s | %s | %s | %s |" % (sid, own, m.get("needs", "see NOTES.md").replace("|", "/"), blind, col))
    out.append("")
    out.append("Bold = the check of the property the change was written against (re-run on the final machinery); the other ids are "
               "checks that reported the change in a cross run (every check against every change), which was last made for each change "
               "at the end of the round that produced it - later strengthening can only have added to them.")
    out.append("")
    bd = os.path.join(HERE, "benign")
    if os.path.isdir(bd):
        out.append("| behaviour-preserving / out-of-scope change | code of | all 19 checks |")
        out.append("|---|---|---|")
        for sid in sorted(os.listdir(bd)):
            mp = os.path.join(bd, sid, "meta.json")
            if not os.path.exists(mp):
                continue
            m = json.load(open(mp))
            q = m.get("checks", {}).get("quick", {})
            bad = sorted(p for p, r in q.items() if r["exit"] != 0)
            if bad and m.get("expected_silent") is False:
                res = "reported by " + " ".join(bad) + " – as it should be: the corrected feature redefines a stated rule (see `meta.json` note, 10d)"
            else:
                res = ("silent (%d checks)" % len(q)) if not bad else "NOT silent: " + " ".join(bad)
            out.append("| `%s` | %s | %s |" % (sid, m.get("refactors_code_of"), res))
        out.append("")
    lr = os.path.join(HERE, "mutants", "last_run.json")
    if os.path.exists(lr):
        res = json.load(open(lr))
        out.append("| catalogue mutant | change | repository suite | fired |")
        out.append("|---|---|---|---|")
        for name, r in res.items():
            fired = sorted(p for p, c in r["checks"].items() if c["exit"] == 1)
            missed = sorted(p for p in r["expect"] if p not in fired)
            out.append("| `%s` | %s | %s | %s%s |" % (name, r["what"], r["suite"], " ".join(fired) or "-", (" (missed: %s)" % " ".join(missed)) if missed else ""))
    print("\n".join(out))


if __name__ == "__main__":
    main()
