#!/venv/bin/python
"""Tiny undefined-name check for the harness (no linter is installed in the sandbox): a name that is read inside a function
but bound nowhere in that function, its enclosing functions, the module, or builtins.  Violation-reporting branches run only on
changed trees, so a typo there would otherwise stay unnoticed until it turns a detection into a worker crash."""
import ast
import builtins
import os
import sys

HERE = os.path.dirname(os.path.dirname(os.path.abspath(__file__)))


def bound_names(node):
    out = set()
    for n in ast.walk(node):
        if isinstance(n, ast.Name) and isinstance(n.ctx, (ast.Store, ast.Del)):
            out.add(n.id)
        elif isinstance(n, (ast.FunctionDef, ast.AsyncFunctionDef, ast.ClassDef)):
            out.add(n.name)
        elif isinstance(n, ast.alias):
            out.add((n.asname or n.name).split(".")[0])
        elif isinstance(n, ast.ExceptHandler) and n.name:
            out.add(n.name)
        elif isinstance(n, ast.arg):
            out.add(n.arg)
        elif isinstance(n, (ast.Global, ast.Nonlocal)):
            out.update(n.names)
    return out


def check(path):
    tree = ast.parse(open(path, encoding="utf-8").read(), path)
    mod = bound_names(tree)  # generous: anything bound anywhere in the module
    bad = []

    def visit(fn, outer):
        scope = outer | bound_names(fn)
        for n in ast.walk(fn):
            if isinstance(n, ast.Name) and isinstance(n.ctx, ast.Load) and n.id not in scope and not hasattr(builtins, n.id) and n.id not in ("__file__", "__name__", "__doc__"):
                bad.append((path, n.lineno, n.id))

    # module-level generosity would hide function-local typos, so check each function against: its own bindings + enclosing functions'
    # bindings + names bound at module TOP LEVEL only
    top = set()
    for st in tree.body:
        top |= {x for x in bound_names(st)} if not isinstance(st, (ast.FunctionDef, ast.AsyncFunctionDef, ast.ClassDef)) else {st.name}

    def walk_funcs(node, outer):
        for ch in ast.iter_child_nodes(node):
            if isinstance(ch, (ast.FunctionDef, ast.AsyncFunctionDef, ast.Lambda)):
                own = set()
                # bindings of this function excluding nested function bodies
                for n in ast.walk(ch):
                    pass
                own = bound_names(ch)
                scope = outer | own
                for n in ast.walk(ch):
                    if isinstance(n, ast.Name) and isinstance(n.ctx, ast.Load) and n.id not in scope and not hasattr(builtins, n.id) and n.id not in ("__file__", "__name__", "__doc__"):
                        bad.append((path, n.lineno, n.id))
                walk_funcs(ch, scope)
            elif isinstance(ch, ast.ClassDef):
                walk_funcs(ch, outer | bound_names(ch))
            else:
                walk_funcs(ch, outer)

    walk_funcs(tree, top)
    return sorted(set(bad))


def main():
    bad = []
    for root in ("vf", "tools", "mutants"):
        for dp, _dn, fns in os.walk(os.path.join(HERE, root)):
            for fn in fns:
                if fn.endswith(".py"):
                    bad += check(os.path.join(dp, fn))
    bad += check(os.path.join(HERE, "check.py"))
    for p, ln, name in bad:
        print("%s:%d: undefined name %r" % (os.path.relpath(p, HERE), ln, name))
    print("%d undefined names" % len(bad))
    return 1 if bad else 0


if __name__ == "__main__":
    sys.exit(main())
