#!/venv/bin/python
"""Mutant self-test of the monitors.

  tools/mutate.py list
  tools/mutate.py run <name>|all [--tier quick] [--props C01,C02] [--tests]

For each catalogue entry: make a scratch git worktree of /repo's HEAD under $TMPDIR,
apply the textual edit(s), run the named checks against it (CCT_REPO), report which
fired, remove the worktree.  --tests also runs the repository's own suite on the
mutant to confirm that it survives it.  Nothing is ever changed in /repo itself.
"""
import argparse
import json
import os
import re
import shutil
import subprocess
import sys
import tempfile
import time

HERE = os.path.dirname(os.path.dirname(os.path.abspath(__file__)))
sys.path.insert(0, HERE)
from mutants.catalogue import MUTANTS  # noqa: E402

PY = "/venv/bin/python"
RESULTS = {}


def make_tree(m):
    d = tempfile.mkdtemp(prefix="cct_mut_")
    os.rmdir(d)
    subprocess.run(["git", "-C", "/repo", "worktree", "add", "-q", "--detach", d, "HEAD"], check=True)
    for (fn, old, new) in m["edits"]:
        p = os.path.join(d, fn)
        s = open(p, encoding="utf-8").read()
        if s.count(old) != 1:
            raise SystemExit("mutant %s: pattern occurs %d times in %s" % (m["name"], s.count(old), fn))
        open(p, "w", encoding="utf-8").write(s.replace(old, new))
    return d


def drop_tree(d):
    shutil.rmtree(os.path.join(tempfile.gettempdir(), "vf_out_other_tree", os.path.basename(d.rstrip("/"))), ignore_errors=True)
    subprocess.run(["git", "-C", "/repo", "worktree", "remove", "--force", d])
    shutil.rmtree(d, ignore_errors=True)


def run_tests(d):
    p = subprocess.run(
        [PY, "-m", "pytest", "-q", "-p", "no:cacheprovider", "-o", "addopts=", "--timeout=900",
         "--continue-on-collection-errors", "--junitxml=" + os.path.join(d, "junit.xml")],
        cwd=d, stdout=subprocess.PIPE, stderr=subprocess.STDOUT,
        env=dict(os.environ, PYTHONPATH=d, PYTHONDONTWRITEBYTECODE="1"),
    )
    import xml.etree.ElementTree as ET

    passed = set()
    try:
        for tc in ET.parse(os.path.join(d, "junit.xml")).getroot().iter("testcase"):
            if not list(tc):
                passed.add("%s::%s" % (tc.get("classname"), tc.get("name")))
    except Exception:
        pass
    base = json.load(open("/root/.vp/BASELINE.json"))["stable_pass"]
    missing = [t for t in base if t not in passed]
    return missing


def run_checks(d, props, tier):
    res = {}
    for pid in props:
        t0 = time.time()
        p = subprocess.run(
            [PY, os.path.join(HERE, "check.py"), pid, "--tier", tier],
            cwd=HERE, env=dict(os.environ, CCT_REPO=d), stdout=subprocess.PIPE, stderr=subprocess.STDOUT,
        )
        out = p.stdout.decode("utf-8", "replace")
        mechs = re.findall(r"witness mechanism=(\S+)", out)
        res[pid] = (p.returncode, mechs, time.time() - t0, out)
    return res


def main():
    ap = argparse.ArgumentParser()
    ap.add_argument("cmd")
    ap.add_argument("name", nargs="?")
    ap.add_argument("--tier", default="quick")
    ap.add_argument("--props")
    ap.add_argument("--tests", action="store_true")
    ap.add_argument("-v", action="store_true")
    a = ap.parse_args()
    if a.cmd == "list":
        for m in MUTANTS:
            print("%-34s %-20s %s" % (m["name"], ",".join(m["expect"]), m["what"]))
        return 0
    sel = MUTANTS if a.name == "all" else [m for m in MUTANTS if m["name"] == a.name]
    if not sel:
        raise SystemExit("no such mutant")
    missed = 0
    for m in sel:
        d = make_tree(m)
        try:
            line = "%-34s" % m["name"]
            miss = []
            if a.tests:
                miss = run_tests(d)
                line += " suite:%s" % ("survives" if not miss else "KILLED(%d)" % len(miss))
            props = a.props.split(",") if a.props else m["expect"]
            res = run_checks(d, props, a.tier)
            RESULTS[m["name"]] = {"what": m["what"], "expect": m["expect"], "suite": ("survives" if a.tests and not miss else ("killed" if a.tests else "not run")),
                                  "checks": {pid: {"exit": r[0], "mechanisms": sorted(set(r[1]))[:5]} for pid, r in res.items()}}
            for pid, (rc, mechs, dt, out) in res.items():
                line += "  %s:%s(%.0fs)" % (pid, {0: "silent", 1: "FIRED", 2: "inconcl"}.get(rc, rc), dt)
                if rc != 1 and pid in m["expect"]:
                    missed += 1
                if a.v:
                    print(out)
                elif rc == 1:
                    line += "[" + ";".join(sorted(set(x.split("/")[0] for x in mechs))[:3]) + "]"
            print(line)
            sys.stdout.flush()
        finally:
            drop_tree(d)
    print("missed expectations: %d" % missed)
    if a.name == "all" and not a.props:
        with open(os.path.join(HERE, "mutants", "last_run.json"), "w") as f:
            json.dump(RESULTS, f, indent=1, sort_keys=True)
    return 1 if missed else 0


if __name__ == "__main__":
    sys.exit(main())
