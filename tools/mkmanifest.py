#!/venv/bin/python
"""Regenerates /verif/MANIFEST.json from the table below (keeps it schema-valid)."""
import json
import os

HERE = os.path.dirname(os.path.dirname(os.path.abspath(__file__)))

PY = "/venv/bin/python"

CHECKS = {
    "C01": dict(
        text="Runtime monitoring: every verify_signable outcome on thousands of seeded, stratified hostile envelopes is compared "
        "with an independent reference threshold model (pure-Python RFC 8032 verifier over a hand-written canonical serializer); a "
        "primitive probe additionally watches which bytes/keys reach the ed25519 primitive. Held on the executions observed, not proved.",
        technique="boundary recorder + reference-model oracle + primitive probe on the real code",
        ref="4/C01",
    ),
    "C02": dict(
        text="Runtime monitoring of completeness: envelopes the reference model accepts (with junk entries, permutations, foreign "
        "conforming signers, library-made signatures, shipped fixtures) are run through the real verifiers under several stdout "
        "encodings and pre-import sets; any raise is a violation.",
        technique="boundary recorder + reference-model oracle + configuration matrix (stdout encoding, pre-imports)",
        ref="4/C02",
    ),
}

NOTE = (
    "Trusted base: CPython 3.12, hashlib, the reference implementations under vf/refs (self-tested against RFC 8032 vectors and the "
    "shipped signed fixtures at every start; a failing self-test makes the run inconclusive), and the harness itself. Evidence "
    "describes the executions observed by the monitors."
)

ALL = ["C%02d" % i for i in range(1, 20)]


def main():
    checks = []
    for pid in ALL:
        if pid not in CHECKS:
            continue
        c = CHECKS[pid]
        checks.append(
            {
                "property_id": pid,
                "quick_cmd": "%s check.py %s --tier quick" % (PY, pid),
                "thorough_cmd": "%s check.py %s --tier thorough" % (PY, pid),
                "evidence_file": "evidence/%s.json" % pid,
                "replay_cmd_template": "%s check.py %s --replay {path}" % (PY, pid),
                "engine": "vf",
                "level_claimed": {
                    "category": c.get("category", "exploration"),
                    "text": c["text"],
                    "design_ref": "DESIGN.md section " + c["ref"],
                },
                "level_note": c.get("note", NOTE),
                "technique": c["technique"],
            }
        )
    na = [
        {"property_id": pid, "reason": "check not built yet (work in progress; runtime monitoring applies, see DESIGN.md section 4)"}
        for pid in ALL
        if pid not in CHECKS
    ]
    m = {
        "version": 1,
        "setup_cmd": "%s check.py --selftest" % PY,
        "hooks": {
            "guard": "CCT_VERIF",
            "enable": "no source hooks: all monitors attach from outside (module-attribute probes, sys.monitoring, audit hook); "
            "checks export CCT_VERIF=1 but no repository code reads it",
            "baseline_off_cmd": "cd /repo && /venv/bin/python -m pytest -ra -q -p no:cacheprovider --timeout=900 --continue-on-collection-errors",
            "source_commits": [],
            "add_only": True,
        },
        "engines": [
            {
                "name": "vf",
                "path": "vf/",
                "serves_properties": sorted(CHECKS),
                "kind_free_text": "runtime monitoring harness: boundary recorder, reference-model oracles, probes, failpoints, "
                "yield injection, configuration differentials",
            }
        ],
        "checks": checks,
        "notes": "All checks: exit 0 held on what was observed; exit 1 with VIOLATION lines; exit 2 INCONCLUSIVE (never on the unchanged tree). "
        "VERIF_SEED and VERIF_TIER are honoured. Known/fixed findings: known_findings.txt.",
        "not_applicable": na,
    }
    with open(os.path.join(HERE, "MANIFEST.json"), "w") as f:
        json.dump(m, f, indent=1)
    print("MANIFEST.json: %d checks, %d not_applicable" % (len(checks), len(na)))


if __name__ == "__main__":
    main()
