#!/venv/bin/python
"""Regenerates /verif/MANIFEST.json from the table below (keeps it schema-valid)."""
import json
import os

HERE = os.path.dirname(os.path.dirname(os.path.abspath(__file__)))

PY = "/venv/bin/python"

CHECKS = {
    "C01": dict(
        text="Runtime monitoring: every verify_signable outcome on thousands of seeded, stratified hostile envelopes is compared "
        "with an independent reference threshold model (pure-Python RFC 8032 verifier over a hand-written canonical serializer); a "
        "primitive probe additionally watches which bytes/keys reach the ed25519 primitive. Held on the executions observed, not proved. Also run: related neighbours right after an acceptance, in-place histories, the same call while standard output fails (soundness direction only), thread schedules with yield injection, unrelated library activity between judged cases, and a rotation of interpreter configurations.",
        technique="boundary recorder + reference-model oracle + primitive probe on the real code + history / schedule / failing-stdout workloads",
        ref="4/C01",
    ),
    "C02": dict(
        text="Runtime monitoring of completeness: envelopes the reference model accepts (with junk entries, permutations, foreign "
        "conforming signers, library-made signatures, shipped fixtures) are run through the real verifiers under several stdout "
        "encodings and pre-import sets; any raise is a violation. Includes ten-or-more-signer envelopes, entry permutations and thread schedules; unrelated library activity between judged cases.",
        technique="boundary recorder + reference-model oracle + configuration matrix (stdout encoding, pre-imports)",
        ref="4/C02",
    ),
    "C03": dict(
        text="Runtime monitoring: verify_root outcomes on (trusted, offered) root pairs stratified by the rows of the rule's truth table "
        "are compared with a reference root-update model (both directions: unsound accept and false reject). Also: forged neighbours re-using just-verified entries, the same pairs while standard output fails (soundness only), concurrent chaining of different roots. Offered / trusted roots also carry extra members under every member name the library's own code mentions (learned at run time), with values naming the scenario's keys: only the refusing direction is judged for those.",
        technique="boundary recorder + reference root-chain model over stratified pairs + schedule / failing-stdout workloads",
        ref="4/C03",
    ),
    "C04": dict(
        text="Runtime monitoring over histories: a simulated client and the reference model process the same offer sequences in lock-step; "
        "an offline checker over the recorded history asserts lock-step verdicts, the chain invariant, that no adversarial offer is "
        "accepted, and history independence (fresh module instance, shuffled and repeated re-evaluation). Offer classes include replayed signatures, draft thresholds, superset take-over, raw-shaped entries, decoy roles and one insider key filed under several spellings; persistence by library write, atomic replace and external writers; command-line verdicts.",
        technique="recorded-history checker (lock-step reference model, chain invariant, fresh-instance differential)",
        ref="4/C04",
    ),
    "C05": dict(
        text="Runtime monitoring: verify_delegation outcomes on multi-role trusted metadata and adversarial signer strategies are compared "
        "with a reference delegation model; error class asserted for undelegated roles. Also: in-place histories of one trusted object, entries re-filed under another role's keys after an acceptance, stale well-formed entries under listed keys, failing standard output, concurrent verification of different roles. Documents with extra members under learned names, delegations to an empty key list, copies of good entries under abbreviated key labels, present-but-empty optional members.",
        technique="boundary recorder + reference delegation model over stratified cases + history / schedule workloads",
        ref="4/C05",
    ),
    "C06": dict(
        text="Runtime monitoring with metamorphic oracles on the real verifiers: type-confusion bases under 14 manipulations of the unsigned "
        "signature map; strip invariance on every acceptance and junk-augmentation invariance on every rejection of all three verifiers. Type-confusion offers are also made as the first contact of the process while standard output fails, with never-seen specification versions.",
        technique="metamorphic monitors (strip / junk-augmentation invariance) + reference model on the real verifiers",
        ref="4/C06",
    ),
    "C07": dict(
        text="Runtime monitoring: canonserialize output compared byte-for-byte with a hand-written reference serializer on hostile values; "
        "order independence, parse round trip, fix point, global collision table; fixed-corpus digests compared across a matrix of "
        "interpreter configurations (hash seed, locale, TZ, cwd, -O, -I, pre-imports); primitive probes on signer and verifier bytes. Several threads serialising one shared, unsorted object must all obtain the reference bytes.",
        technique="reference-serializer oracle + metamorphic invariants + cross-process configuration differential + shared-object schedule workload",
        ref="4/C07",
    ),
    "C08": dict(
        text="Runtime monitoring over file histories (write / load / sign in memory + write / sign_all_in_repodata / GnuPG-path signing): "
        "after each step file bytes equal the reference canonical bytes, loaded value equals the in-memory value, a fixed panel of "
        "verification verdicts is unchanged, earlier entries are byte-identical and still count. Includes envelope-shaped values indexed by other spellings of a key, same-path overwrites, out-of-band replacement, a scripted interactive session. Write / load among neighbour files (the name plus every suffix the library's code mentions and usual leftovers) holding stale material of an earlier version.",
        technique="recorded file-history checker with reference serializer and verdict panel",
        ref="4/C08",
    ),
    "C09": dict(
        text="Runtime monitoring of sign-then-verify: after every sign_signable the envelope is compared with the exact expected envelope "
        "(RFC 8032 reference signature over reference canonical bytes), idempotence, all signing orders, threshold boundary t=k / k+1, "
        "value-changing and value-preserving edits; sign-side primitive probe. Threads signing different envelopes with different keys, then sequential signing with the same key objects. Copies of signers' entries under other labels of their own keys (also listed as authorized) never raise the signer count.",
        technique="state assertions after each operation against reference signer/serializer + primitive probe + schedule workload",
        ref="4/C09",
    ),
    "C10": dict(
        text="Runtime monitoring of OpenPGP-mode verification against an RFC 4880 digest reference over payload/header/key/signature "
        "corruptions (single-bit sweeps, boundary shift, S+L), plus real GnuPG 2.2 signatures made through the library's own GPG signing "
        "path (GnuPG-backed securesystemslib stand-in) and then corrupted. Threads verifying different (large) payloads at once, then the main thread again, each judged by the reference digest of its own arguments. Real packet layouts with other version octets; signatures over the trailers other packet versions define; hex fields with white space a lenient decoder skips.",
        technique="reference-digest oracle + real GnuPG second signer + corruption sweeps + schedule workload",
        ref="4/C10",
    ),
    "C11": dict(
        text="Runtime monitoring of repodata signing: output file bytes compared with the reference-computed expected document "
        "(deterministic ed25519), client-side verification of each artifact through a pkg_mgr delegation, cross-artifact rejection, "
        "idempotence, serialize_and_sign call-count probe. Histories with a failed earlier attempt on the same path; different files signed concurrently with different keys.",
        technique="expected-document oracle (reference signer + serializer) + client-side verification monitor + history / schedule workloads",
        ref="4/C11",
    ),
    "C12": dict(
        text="Runtime monitoring of purity: argument fingerprints before/after every call; call histories re-evaluated in a fresh module "
        "instance, fresh processes, reversed/shuffled order; threads over shared objects with sys.monitoring yield injection (context "
        "switches inside the library counted); configuration matrix.",
        technique="argument-fingerprint monitor + history/fresh-instance/fresh-process differentials + thread stress with yield injection",
        ref="4/C12",
    ),
    "C13": dict(
        text="Runtime monitoring of error families: every public validator/verifier called with every palette value in every argument "
        "position and with single/double path mutations of valid arguments; outcome must be a return or a documented error family; "
        "predicates return bool; sys.monitoring step budget for termination; error-class mapping on single-cause cases from the models. Single-cause rejections are also offered while standard output fails: a rejection must stay a rejection. Every kind of non-counting entry the generators know, one at a time, in the place of the one missing signer (must be a signature error).",
        technique="boundary recorder (exception class + raise site) over palette/mutation sweeps + sys.monitoring step budget",
        ref="4/C13",
    ),
    "C14": dict(
        text="Runtime monitoring: checkformat_delegating_metadata compared with a reference schema (ACCEPT/REJECT/GREY) on systematic "
        "every-path mutations of fixtures, builder output and generated metadata; every accepted document pushed through the verifiers. Python-level documents with non-string mapping keys; repeat-after-reject; validators under threads.",
        technique="reference-schema oracle over systematic path mutations + push-through monitor + schedule workload",
        ref="4/C14",
    ),
    "C15": dict(
        text="Runtime monitoring: leaf validators compared with ASCII regular-expression oracles on boundary-length strings over hostile "
        "alphabets, non-strings, entry dictionaries over all key subsets, key lists; predicate/raiser agreement; one-spelling table. Siblings of a value right after it was accepted, repeat-after-reject, validators under threads. Every learned member name singly as a further member of perfect entries, before and after unrelated activity that switches on each keyword option the library declares.",
        technique="regex oracle + predicate/raiser differential over systematic and random inputs + history / schedule workloads",
        ref="4/C15",
    ),
    "C16": dict(
        text="Runtime monitoring of the metadata builders: valid and corrupted argument tuples; returned metadata checked against the "
        "reference schema, the library checker, argument fidelity, default expiry window under three TZ values, and a builder-made "
        "root chain verified by verify_root. Default times are bracketed by the clock within 2 s, also after rejected calls and a real pause, and under threads. A virtual clock (library-namespace rebinding of datetime / time) puts default times on chosen instants: whole second, 1 us before a second / day / year ends, leap day, 2^31 s.",
        technique="postcondition monitor on builder output (reference schema + checker + verifier) incl. TZ configurations + history / schedule workloads",
        ref="4/C16",
    ),
    "C17": dict(
        text="Runtime monitoring at the process boundary: each entry point (console script, python -m package, python -m cli module) is "
        "started as a real process on generated file pairs; exit status and contradiction-level output compared with the library's "
        "in-process verdict; signing subcommands checked for exit status vs. actual effect. Sign-artifacts scenarios include re-signing after a hot-fix, planted own-key entries and key values with leading / trailing zeros; verify-metadata with a closed stdout pipe. One file in both positions (same path, ./, //, symlink, hard link, copy); a non-string declared type next to a role named like it.",
        technique="process-boundary monitor (exit status, stdout) vs in-process verdict, all entry points",
        ref="4/C17",
    ),
    "C18": dict(
        category="fault_enumeration",
        text="Fault enumeration with source-free failpoints: for each document a census of executed library line events, then one run per "
        "line / call / callee-entry event before the first write-mode open of the target, and per serialisation-or-signing call between "
        "open and first write, with a fault (exception class rotating over 16 classes incl. KeyError and KeyboardInterrupt) injected there; after each failed run the target file must be byte-identical; plus natural failures and an ordering invariant "
        "from the audit hook / file proxy on successful runs. Exhaustive per document over its executed lines. Key files of several lines (valid key then anything else): a run that reports failure has left the file as it was.",
        technique="sys.monitoring failpoint enumeration + audit-hook / file-proxy ordering monitor",
        ref="4/C18",
    ),
    "C19": dict(
        text="Runtime monitoring: library key derivation, hex filing and signatures compared with an independent RFC 8032 implementation "
        "per seed; conversion-graph random walks; equivalence laws; key files; malformed encodings. Key rotation histories (other route, other spelling of the path, relative name after chdir), repeat-after-reject, the command line's hex key files, conversions under threads. Malformed encodings again after every kind of unrelated activity (early-ending command-line runs, options switched on).",
        technique="reference RFC 8032 oracle + round-trip / law monitors + history / schedule workloads",
        ref="4/C19",
    ),
}

NOTE = (
    "Trusted base: CPython 3.12, hashlib, the reference implementations under vf/refs (self-tested against RFC 8032 vectors and the "
    "shipped signed fixtures at every start; a failing self-test makes the run inconclusive), and the harness itself. Evidence "
    "describes the executions observed by the monitors."
)

ALL = ["C%02d" % i for i in range(1, 20)]


def main():
    checks = []
    built = [pid for pid in ALL if os.path.exists(os.path.join(HERE, "vf", "props", pid.lower() + ".py"))]
    for pid in ALL:
        if pid not in built:
            continue
        c = CHECKS[pid]
        checks.append(
            {
                "property_id": pid,
                "quick_cmd": "%s check.py %s --tier quick" % (PY, pid),
                "thorough_cmd": "%s check.py %s --tier thorough" % (PY, pid),
                "evidence_file": "evidence/%s.json" % pid,
                "replay_cmd_template": "%s check.py %s --replay {path}" % (PY, pid),
                "engine": "vf",
                "level_claimed": {
                    "category": c.get("category", "exploration"),
                    "text": c["text"],
                    "design_ref": "DESIGN.md section " + c["ref"],
                },
                "level_note": c.get("note", NOTE),
                "technique": c["technique"],
            }
        )
    na = [
        {"property_id": pid, "reason": "check not built yet (work in progress; runtime monitoring applies, see DESIGN.md section 4)"}
        for pid in ALL
        if pid not in built
    ]
    m = {
        "version": 1,
        "setup_cmd": "%s check.py --selftest" % PY,
        "hooks": {
            "guard": "CCT_VERIF",
            "enable": "no source hooks: all monitors attach from outside (module-attribute probes, sys.monitoring, audit hook); "
            "checks export CCT_VERIF=1 but no repository code reads it",
            "baseline_off_cmd": "cd /repo && /venv/bin/python -m pytest -ra -q -p no:cacheprovider --timeout=900 --continue-on-collection-errors",
            "source_commits": [],
            "add_only": True,
        },
        "engines": [
            {
                "name": "vf",
                "path": "vf/",
                "serves_properties": built,
                "kind_free_text": "runtime monitoring harness: boundary recorder, reference-model oracles, probes, failpoints, "
                "yield injection, configuration differentials",
            }
        ],
        "checks": checks,
        "notes": "All checks: exit 0 held on what was observed; exit 1 with VIOLATION lines; exit 2 INCONCLUSIVE (never on the unchanged tree). "
        "VERIF_SEED and VERIF_TIER are honoured. Known/fixed findings: known_findings.txt.",
        "not_applicable": na,
    }
    with open(os.path.join(HERE, "MANIFEST.json"), "w") as f:
        json.dump(m, f, indent=1)
    print("MANIFEST.json: %d checks, %d not_applicable" % (len(checks), len(na)))


if __name__ == "__main__":
    main()
